//! Generator for the `\openin` / `\read` / `\ifeof` / `\closein` part of C19: a few files made of
//! marker words, blanks, braces and `\relax`, and a program that interleaves the four primitives
//! on up to 16 streams, printing `[\x]` after every `\read` and `t<id>`/`f<id>` for every `\ifeof`.
//!
//! The generator keeps, per stream, how many `\read`s still deliver real lines (computed with
//! vmodels::inputfiles::read_units) - for *steering only*: in "safe" cases it never looks at a
//! stream between the read that consumed its last real line and the next `\openin`/`\closein`, so
//! that the known finding C19-ifeof-one-read-early cannot be involved and every deviation there is
//! a plain violation.

use crate::gen::put;
use std::collections::BTreeMap;
use vcore::Rng;
use vmodels::inputfiles as model;

pub struct ReadCase {
    pub files: Vec<(String, String)>,
    pub terminal: Vec<String>,
    pub main: String,
    pub safe_mode: bool,
    pub feats: BTreeMap<&'static str, u64>,
}

#[derive(Clone, Copy)]
enum St {
    Closed,
    Open { units_left: Option<usize>, tainted: bool },
}

struct G<'r> {
    rng: &'r mut Rng,
    next_marker: u32,
    feats: BTreeMap<&'static str, u64>,
}

impl<'r> G<'r> {
    fn feat(&mut self, k: &'static str) {
        *self.feats.entry(k).or_insert(0) += 1;
    }
    fn marker(&mut self) -> String {
        self.next_marker += 1;
        let letter = (b'A' + (self.next_marker % 16) as u8) as char; // A..P
        format!("{letter}{}", self.next_marker)
    }
    fn dead_marker(&mut self) -> String {
        self.next_marker += 1;
        format!("Z{}", self.next_marker)
    }
    fn blanks(&mut self) -> &'static str {
        match self.rng.below(5) {
            0..=2 => " ",
            3 => "  ",
            _ => "   ",
        }
    }

    fn read_file(&mut self) -> String {
        let n_lines = self.rng.weighted(&[6, 22, 24, 20, 14, 14]);
        if n_lines == 0 {
            self.feat("read_file_empty");
            return String::new();
        }
        let unterminated = self.rng.chance(1, 30);
        let mut balance = 0usize;
        let mut lines: Vec<String> = vec![];
        let mut last_dead = false;
        for _ in 0..n_lines {
            let mut l = String::new();
            if self.rng.chance(1, 5) {
                l.push_str(self.blanks());
            }
            let k = match self.rng.below(10) {
                0 => 0,
                1..=3 => 1,
                4..=6 => 2,
                7..=8 => 3,
                _ => 4,
            };
            let mut dead_rest = false;
            for _ in 0..k {
                let w_close = if balance > 0 || dead_rest { 14 } else { 0 };
                let w_unmatched = if balance == 0 && !dead_rest { 4 } else { 0 };
                match self.rng.weighted(&[50, 12, w_close, w_unmatched, 4]) {
                    0 => {
                        let m = if dead_rest { self.dead_marker() } else { self.marker() };
                        put(&mut l, &m);
                    }
                    1 => {
                        l.push('{');
                        if !dead_rest {
                            balance += 1;
                        }
                    }
                    2 => {
                        l.push('}');
                        if !dead_rest {
                            balance -= 1;
                        }
                    }
                    3 => {
                        // unmatched `}': TeX drops the rest of this line and ends the read
                        l.push('}');
                        dead_rest = true;
                        self.feat("read_file_unmatched_close");
                    }
                    _ => put(&mut l, "\\relax"),
                }
                if self.rng.chance(1, 2) {
                    l.push_str(self.blanks());
                }
            }
            if k == 0 {
                self.feat("read_file_blank_line");
            }
            last_dead = dead_rest;
            lines.push(l);
        }
        if balance > 0 {
            self.feat("read_file_group_spans_lines");
            if unterminated {
                self.feat("read_file_ends_inside_group");
            } else if !last_dead {
                let l = lines.last_mut().unwrap();
                for _ in 0..balance {
                    l.push('}');
                }
            } else {
                lines.push("}".repeat(balance));
            }
        }
        let mut c = lines.join("\n");
        if lines.last().map_or(true, |l| l.is_empty()) || self.rng.chance(1, 2) {
            c.push('\n');
        } else {
            self.feat("read_file_without_final_newline");
        }
        c
    }
}

pub fn read_case(rng: &mut Rng) -> ReadCase {
    let mut g = G { rng, next_marker: 0, feats: BTreeMap::new() };
    let n_files = 1 + g.rng.below(4) as usize;
    let mut files = vec![];
    let mut units: Vec<Option<usize>> = vec![];
    for i in 0..n_files {
        let c = g.read_file();
        units.push(model::read_units(&c));
        files.push((format!("r{i}.tex"), c));
    }
    let safe_mode = g.rng.chance(1, 2);
    // streams in play
    let n_streams = match g.rng.below(10) {
        0..=3 => 1 + g.rng.below(2) as usize,
        4..=6 => 3 + g.rng.below(4) as usize,
        _ => 16,
    };
    let mut all: Vec<usize> = (0..16).collect();
    g.rng.shuffle(&mut all);
    let streams: Vec<usize> = all[..n_streams].to_vec();
    if n_streams == 16 {
        g.feat("all_16_streams_in_play");
    }
    let n_term = g.rng.below(4) as usize;
    let mut terminal = vec![];
    for _ in 0..n_term {
        let mut l = g.marker();
        if g.rng.chance(1, 3) {
            l.push_str(" {");
            l.push_str(&g.marker());
            l.push('}');
        }
        if g.rng.chance(1, 2) {
            l.push(' ');
            l.push_str(&g.marker());
        }
        terminal.push(l);
    }
    let mut term_left = n_term;
    let mut st = [St::Closed; 16];
    let targets = ["x", "y", "z"];
    let mut prog = String::from("\\def\\par{!}\\def\\x{x0}\\def\\y{y0}\\def\\z{z0}");
    let mut id = 0u32;
    let mut depth = 0usize;
    let n_ops = 6 + g.rng.below(26);
    let sep = |g: &mut G, prog: &mut String| match g.rng.below(6) {
        0..=2 => {}
        3..=4 => prog.push(' '),
        _ => prog.push('\n'),
    };
    if n_streams == 16 && g.rng.coin() {
        // all 16 streams open at the same time
        g.feat("all_16_streams_opened_together");
        for n in 0..16usize {
            let i = g.rng.usize_below(files.len());
            prog.push_str(&format!("\\openin{n}=r{i} "));
            st[n] = match units[i] {
                None => St::Open { units_left: None, tainted: false },
                u => St::Open { units_left: u, tainted: false },
            };
        }
    }
    for _ in 0..n_ops {
        sep(&mut g, &mut prog);
        let n = *g.rng.pick(&streams);
        let (tainted, open, units_left) = match st[n] {
            St::Closed => (false, false, None),
            St::Open { units_left, tainted } => (tainted, true, units_left),
        };
        let blocked = safe_mode && tainted;
        let w_read = if blocked {
            0
        } else if open {
            // in safe mode never ask for the line TeX appends
            if safe_mode && units_left == Some(0) {
                0
            } else {
                45
            }
        } else if term_left > 0 {
            3
        } else {
            0
        };
        let w_ifeof = if blocked { 0 } else { 25 };
        let w_group_open = if depth < 2 { 3 } else { 0 };
        let w_group_close = if depth > 0 { 5 } else { 0 };
        match g.rng.weighted(&[16, 6, w_read, w_ifeof, 6, w_group_open, w_group_close]) {
            0 => {
                // \openin
                let missing = g.rng.chance(1, 7);
                let (name, u) = if missing {
                    g.feat("openin_missing_file");
                    (format!("nofile{}", g.rng.below(3)), None)
                } else {
                    let i = g.rng.usize_below(files.len());
                    (format!("r{i}"), Some(units[i]))
                };
                let form = match g.rng.below(3) {
                    0 => format!("\\openin{n}="),
                    1 => format!("\\openin{n} "),
                    _ => format!("\\openin {n} ="),
                };
                put(&mut prog, &form);
                prog.push_str(&name);
                if !missing && g.rng.chance(1, 5) {
                    prog.push_str(".tex");
                }
                prog.push(if g.rng.chance(1, 4) { '\n' } else { ' ' });
                st[n] = match u {
                    None => St::Closed,
                    Some(u) => {
                        // an empty file: the only read is the appended empty line
                        St::Open { units_left: u, tainted: false }
                    }
                };
                if open {
                    g.feat("openin_on_open_stream");
                }
            }
            1 => {
                let form = if g.rng.coin() { format!("\\closein{n} ") } else { format!("\\closein{n}\\relax") };
                put(&mut prog, &form);
                st[n] = St::Closed;
            }
            2 => {
                let t = *g.rng.pick(&targets);
                let form = match g.rng.below(3) {
                    0 => format!("\\read{n} to\\{t}"),
                    1 => format!("\\read {n} to \\{t}"),
                    _ => format!("\\read{n}to\\{t}"),
                };
                put(&mut prog, &form);
                prog.push_str(&format!("[\\{t}]"));
                match st[n] {
                    St::Closed => {
                        term_left -= 1;
                        g.feat("read_from_terminal_closed_stream");
                    }
                    St::Open { units_left, .. } => {
                        st[n] = match units_left {
                            None => St::Open { units_left: None, tainted: false },
                            Some(0) => St::Closed,
                            Some(u) => St::Open { units_left: Some(u - 1), tainted: u == 1 },
                        };
                    }
                }
            }
            3 => {
                id += 1;
                let form = if g.rng.chance(1, 4) { format!("\\ifeof {n} ") } else { format!("\\ifeof{n} ") };
                put(&mut prog, &form);
                match g.rng.below(3) {
                    0 => prog.push_str(&format!("t{id}\\else f{id}\\fi")),
                    1 => prog.push_str(&format!("t{id}\\fi")),
                    _ => prog.push_str(&format!("\\else f{id}\\fi")),
                }
            }
            4 => {
                let t = *g.rng.pick(&targets);
                prog.push_str(&format!("[\\{t}]"));
            }
            5 => {
                prog.push('{');
                depth += 1;
            }
            _ => {
                prog.push('}');
                depth -= 1;
                let t = *g.rng.pick(&targets);
                prog.push_str(&format!("[\\{t}]"));
                g.feat("group_closed_after_reads");
            }
        }
    }
    // rarely: \read with a stream number outside 0..15 (always the terminal)
    if term_left > 0 && g.rng.chance(1, 8) {
        let n = *g.rng.pick(&[-1i32, 16, 99]);
        put(&mut prog, &format!("\\read{n} to\\x[\\x]"));
        g.feat("read_out_of_range_stream");
    }
    while depth > 0 {
        prog.push('}');
        depth -= 1;
    }
    prog.push_str("[\\x\\y\\z]");
    if g.rng.coin() {
        prog.push('\n');
    }
    ReadCase { files, terminal, main: prog, safe_mode, feats: g.feats }
}
