fn main() {
    let d: u8 = std::env::args().nth(1).and_then(|s| s.parse().ok()).unwrap_or(9);
    let t = std::time::Instant::now();
    let b = c20::gm::bfs(d);
    println!("depth {d}: {} states, per depth {:?}, {:?}", b.nodes.len(), b.per_depth, t.elapsed());
}
