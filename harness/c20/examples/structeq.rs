use c20::gm::*;
fn main() {
    let mut sh = Stats::default();
    let mut sv = Stats::default();
    let cont = vec![];
    let mut shown = 0;
    for h in 0..100000u64 {
        let mut x = h; let mut hist = vec![Op::Begin; 5];
        for i in (0..5).rev() { hist[i] = small_op((x % 10) as u8); x /= 10; }
        let b = sv.get(C::Rebuilds) - sv.get(C::RebuildStructEq);
        let _ = run_small::<HashBacked>(&hist, &cont, &SMALL_KEYS, &mut sh);
        let _ = run_small::<VecBacked>(&hist, &cont, &SMALL_KEYS, &mut sv);
        if sv.get(C::Rebuilds) - sv.get(C::RebuildStructEq) > b && shown < 3 { shown += 1; println!("vec not struct-eq: {:?}", show_ops(&hist)); }
    }
    println!("hash: rebuilds {} structeq {}", sh.get(C::Rebuilds), sh.get(C::RebuildStructEq));
    println!("vec:  rebuilds {} structeq {}", sv.get(C::Rebuilds), sv.get(C::RebuildStructEq));
}
