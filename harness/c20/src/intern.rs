//! C20 part 2: `Interner` - equal keys exactly for equal strings, `resolve` inverse, also when
//! every hash collides, and after a serde round trip (which rebuilds the dedup map).
//!
//! Keys are treated as opaque: the monitor remembers the key the real interner returned for the
//! first occurrence of each string (the model assigns ordinals) and never assumes a numbering.

use std::hash::{BuildHasher, BuildHasherDefault, Hasher};
use std::num::NonZeroU32;
use texcraft_stdext::collections::interner::{Interner, Key};
use texlang::token::CsName;
use vcore::{json, Obs, Rng, Value};
use vmodels::containers::InternModel;

/// Every string hashes to the same value: one bucket chain holds all keys.
#[derive(Default)]
pub struct ConstHasher;
impl Hasher for ConstHasher {
    fn finish(&self) -> u64 {
        12
    }
    fn write(&mut self, _: &[u8]) {}
}

/// Hash = number of bytes hashed mod 3: a few long chains and `u64` keys 0, 1, 2.
#[derive(Default)]
pub struct LenHasher(u64);
impl Hasher for LenHasher {
    fn finish(&self) -> u64 {
        self.0 % 3
    }
    fn write(&mut self, b: &[u8]) {
        self.0 += b.len() as u64;
    }
}

pub type ConstBuild = BuildHasherDefault<ConstHasher>;
pub type LenBuild = BuildHasherDefault<LenHasher>;
pub type RandomBuild = std::collections::hash_map::RandomState;

#[derive(Clone, Copy, Debug, PartialEq, Eq, Hash)]
pub enum IOp {
    /// `get` (must agree with the model), then `get_or_intern`
    Intern(usize),
    /// `get` only
    Get(usize),
    /// serialise with serde_json, deserialise into an interner with the *other* hasher type,
    /// check it, and drive both with the remaining operations
    Serde,
}

#[derive(Default)]
pub struct IStats {
    pub ops: u64,
    pub new: u64,
    pub repeat: u64,
    pub repeat_not_newest: u64,
    pub resolve_checks: u64,
    pub get_hit: u64,
    pub get_miss: u64,
    pub serde: u64,
    pub serde_nonempty: u64,
    pub empty_string: u64,
    pub after_serde_new: u64,
    pub after_serde_repeat: u64,
    pub max_strings: u64,
}

impl IStats {
    pub fn flush(&self, obs: &mut Obs, hasher: &str) {
        obs.add("intern_ops", self.ops);
        obs.add(&format!("intern_ops_{hasher}"), self.ops);
        obs.add("intern_new_strings", self.new);
        obs.add("intern_repeated_strings", self.repeat);
        if hasher != "random" {
            // under a colliding hasher a repeated string that is not the newest one is found
            // only by walking the bucket chain past at least one other key
            obs.add("intern_repeat_found_behind_chain_head", self.repeat_not_newest);
        }
        obs.add("intern_resolve_checks", self.resolve_checks);
        obs.add("intern_get_hit", self.get_hit);
        obs.add("intern_get_miss", self.get_miss);
        obs.add("intern_serde_roundtrips", self.serde);
        obs.add("intern_serde_roundtrips_nonempty", self.serde_nonempty);
        obs.add("intern_empty_string_ops", self.empty_string);
        obs.add("intern_new_after_serde", self.after_serde_new);
        obs.add("intern_repeat_after_serde", self.after_serde_repeat);
    }
}

pub struct IMismatch {
    pub what: &'static str,
    pub info: Value,
}

struct Driver<K: Key + PartialEq, S: BuildHasher> {
    real: Interner<K, S>,
    model: InternModel,
    /// ordinal -> key the real interner handed out
    keys: Vec<K>,
    after_serde: bool,
}

fn kshow<K: Key>(k: K) -> usize {
    k.into_usize()
}

impl<K: Key + PartialEq, S: BuildHasher> Driver<K, S> {
    fn check_all(&self, st: &mut IStats) -> Result<(), IMismatch> {
        for (ord, k) in self.keys.iter().enumerate() {
            st.resolve_checks += 1;
            let got = self.real.resolve(*k);
            let want = self.model.resolve(ord);
            if got != want {
                return Err(IMismatch {
                    what: "resolve-is-not-the-interned-string",
                    info: json!({"key": kshow(*k), "got": got, "model": want}),
                });
            }
        }
        Ok(())
    }

    fn get(&self, s: &str, st: &mut IStats) -> Result<(), IMismatch> {
        let got = self.real.get(s);
        let want = self.model.get(s).map(|o| self.keys[o]);
        match (got, want) {
            (None, None) => st.get_miss += 1,
            (Some(a), Some(b)) if a == b => st.get_hit += 1,
            _ => {
                return Err(IMismatch {
                    what: "get-disagrees-with-model",
                    info: json!({"string": s, "got": got.map(kshow), "model": want.map(kshow)}),
                })
            }
        }
        Ok(())
    }

    fn intern(&mut self, s: &str, st: &mut IStats) -> Result<(), IMismatch> {
        self.get(s, st)?;
        let k = self.real.get_or_intern(s);
        let (ord, new) = self.model.get_or_intern(s);
        st.ops += 1;
        if s.is_empty() {
            st.empty_string += 1;
        }
        if new {
            st.new += 1;
            if self.after_serde {
                st.after_serde_new += 1;
            }
            if let Some(pos) = self.keys.iter().position(|x| *x == k) {
                return Err(IMismatch {
                    what: "distinct-strings-share-a-key",
                    info: json!({"string": s, "key": kshow(k), "other_string": self.model.resolve(pos)}),
                });
            }
            self.keys.push(k);
        } else {
            st.repeat += 1;
            if self.after_serde {
                st.after_serde_repeat += 1;
            }
            if ord + 1 != self.keys.len() {
                st.repeat_not_newest += 1;
            }
            if self.keys[ord] != k {
                return Err(IMismatch {
                    what: "equal-strings-got-different-keys",
                    info: json!({"string": s, "first_key": kshow(self.keys[ord]), "now": kshow(k)}),
                });
            }
        }
        st.max_strings = st.max_strings.max(self.keys.len() as u64);
        // the same call again is idempotent, and `get` now finds it
        self.get(s, st)?;
        self.check_all(st)
    }
}

fn drive<K, S, S2>(
    d: &mut Driver<K, S>,
    strings: &[String],
    ops: &[IOp],
    st: &mut IStats,
    allow_serde: bool,
) -> Result<(), IMismatch>
where
    K: Key + PartialEq,
    S: BuildHasher + Default,
    S2: BuildHasher + Default,
{
    for (i, op) in ops.iter().enumerate() {
        match *op {
            IOp::Intern(si) => d.intern(&strings[si], st)?,
            IOp::Get(si) => d.get(&strings[si], st)?,
            IOp::Serde => {
                if !allow_serde {
                    continue;
                }
                let text = match serde_json::to_string(&d.real) {
                    Ok(t) => t,
                    Err(e) => {
                        return Err(IMismatch {
                            what: "serialisation-failed",
                            info: json!({"error": e.to_string()}),
                        })
                    }
                };
                let de: Interner<K, S2> = match serde_json::from_str(&text) {
                    Ok(t) => t,
                    Err(e) => {
                        return Err(IMismatch {
                            what: "deserialisation-failed",
                            info: json!({"error": e.to_string(), "text": text}),
                        })
                    }
                };
                st.serde += 1;
                if !d.keys.is_empty() {
                    st.serde_nonempty += 1;
                }
                let mut d2: Driver<K, S2> = Driver {
                    real: de,
                    model: d.model.clone(),
                    keys: d.keys.clone(),
                    after_serde: true,
                };
                let tag = |m: IMismatch| IMismatch {
                    what: match m.what {
                        "resolve-is-not-the-interned-string" => "after-serde:resolve-is-not-the-interned-string",
                        "get-disagrees-with-model" => "after-serde:get-disagrees-with-model",
                        "distinct-strings-share-a-key" => "after-serde:distinct-strings-share-a-key",
                        "equal-strings-got-different-keys" => "after-serde:equal-strings-got-different-keys",
                        other => other,
                    },
                    info: json!({"serialised": text, "diff": m.info}),
                };
                d2.check_all(st).map_err(tag)?;
                for s in strings {
                    d2.get(s, st).map_err(tag)?;
                }
                // the rebuilt interner must behave like the original from here on
                drive::<K, S2, S>(&mut d2, strings, &ops[i + 1..], st, false).map_err(tag)?;
            }
        }
    }
    Ok(())
}

/// Run one plan on `Interner<K, S>`; serde round trips go to `Interner<K, S2>`.
pub fn run_plan<K, S, S2>(strings: &[String], ops: &[IOp], st: &mut IStats) -> Result<(), IMismatch>
where
    K: Key + PartialEq,
    S: BuildHasher + Default,
    S2: BuildHasher + Default,
{
    let mut d: Driver<K, S> = Driver {
        real: Default::default(),
        model: InternModel::new(),
        keys: vec![],
        after_serde: false,
    };
    drive::<K, S, S2>(&mut d, strings, ops, st, true)
}

fn show_plan(strings: &[String], ops: &[IOp]) -> Vec<String> {
    ops.iter()
        .map(|o| match o {
            IOp::Intern(i) => format!("intern {:?}", strings[*i]),
            IOp::Get(i) => format!("get {:?}", strings[*i]),
            IOp::Serde => "serde-roundtrip".into(),
        })
        .collect()
}

/// All six (hasher, key type) configurations on one plan.
pub fn run_all_configs(obs: &mut Obs, strings: &[String], ops: &[IOp]) -> u64 {
    let mut max_strings = 0;
    macro_rules! cfg {
        ($k:ty, $kname:expr, $s:ty, $s2:ty, $hname:expr) => {{
            let mut st = IStats::default();
            let r = vcore::catch(|| run_plan::<$k, $s, $s2>(strings, ops, &mut st));
            match r {
                Ok(Ok(())) => {}
                Ok(Err(m)) => obs.violation(
                    format!("interner/{}/{}", $hname, m.what),
                    json!({"hasher": $hname, "key_type": $kname, "plan": show_plan(strings, ops), "difference": m.info}),
                ),
                Err(p) => obs.repo_panic(
                    &p,
                    json!({"hasher": $hname, "key_type": $kname, "plan": show_plan(strings, ops)}),
                ),
            }
            st.flush(obs, $hname);
            max_strings = max_strings.max(st.max_strings);
        }};
    }
    cfg!(NonZeroU32, "NonZeroU32", ConstBuild, RandomBuild, "constant");
    cfg!(NonZeroU32, "NonZeroU32", LenBuild, ConstBuild, "len-mod-3");
    cfg!(NonZeroU32, "NonZeroU32", RandomBuild, ConstBuild, "random");
    cfg!(CsName, "texlang::token::CsName", ConstBuild, LenBuild, "constant");
    cfg!(CsName, "texlang::token::CsName", RandomBuild, RandomBuild, "random");
    max_strings
}

// ------------------------------------------------------------------------------------------
// phase interner_exhaustive: every sequence of a fixed length over six strings chosen so that
// concatenations in the interner's buffer are ambiguous ("a"+"b" = "ab", "" anywhere).

pub const EXH_STRINGS: [&str; 6] = ["", "a", "b", "ab", "ba", "aba"];
pub const EXH_CHUNK_LETTERS: u32 = 4;

pub fn exhaustive_cases(len: u32) -> u64 {
    6u64.pow(len - EXH_CHUNK_LETTERS)
}

pub fn exhaustive_case(len: u32, idx: u64, rng: &mut Rng, obs: &mut Obs) {
    let strings: Vec<String> = EXH_STRINGS.iter().map(|s| s.to_string()).collect();
    let chunk = 6u64.pow(EXH_CHUNK_LETTERS);
    let mut nontrivial = 0u64;
    for low in 0..chunk {
        let mut x = idx * chunk + low;
        let mut seq = vec![0usize; len as usize];
        for i in (0..len as usize).rev() {
            seq[i] = (x % 6) as usize;
            x /= 6;
        }
        // a serde round trip after a seed-chosen prefix, and always one at the very end
        let cut = rng.usize_below(len as usize + 1);
        let mut ops: Vec<IOp> = Vec::with_capacity(len as usize + 2);
        for (i, s) in seq.iter().enumerate() {
            if i == cut {
                ops.push(IOp::Serde);
            }
            ops.push(IOp::Intern(*s));
        }
        ops.push(IOp::Serde);
        let n = run_all_configs(obs, &strings, &ops);
        // non-trivial: at least two distinct strings (a collision under the constant hasher) and a repeat
        if n >= 2 && (n as usize) < len as usize {
            nontrivial += 1;
        }
        if low == 777 && obs.wants_sample() {
            obs.sample(json!({"plan": show_plan(&strings, &ops), "distinct_strings": n}));
        }
    }
    obs.add("intern_exhaustive_sequences", chunk);
    obs.nontrivial_by_construction(nontrivial);
}

// ------------------------------------------------------------------------------------------
// phase interner_random

const LETTERS: [&str; 8] = ["a", "b", "c", "\\", "é", "λ", "𝔘", " "];

fn random_string(rng: &mut Rng) -> String {
    let n = match rng.below(8) {
        0 => 0,
        1..=4 => rng.range_usize(1, 3),
        _ => rng.range_usize(1, 12),
    };
    let width = rng.range_usize(2, LETTERS.len());
    (0..n).map(|_| LETTERS[rng.usize_below(width)]).collect()
}

pub fn random_case(rng: &mut Rng, obs: &mut Obs) {
    // a pool of strings with many near-duplicates: prefixes, suffixes and concatenations of
    // strings already in the pool (what a buffer-offset bug would confuse)
    let pool_size = rng.range_usize(2, 40);
    let mut strings: Vec<String> = vec![];
    while strings.len() < pool_size {
        let s = if strings.is_empty() || rng.chance(2, 5) {
            random_string(rng)
        } else {
            let a = rng.pick(&strings).clone();
            match rng.below(4) {
                0 => {
                    let cut = a.char_indices().map(|c| c.0).nth(rng.usize_below(a.chars().count() + 1));
                    a[..cut.unwrap_or(a.len())].to_string()
                }
                1 => {
                    let cut = a.char_indices().map(|c| c.0).nth(rng.usize_below(a.chars().count() + 1));
                    a[cut.unwrap_or(a.len())..].to_string()
                }
                2 => {
                    let b = rng.pick(&strings).clone();
                    format!("{a}{b}")
                }
                _ => format!("{a}{}", LETTERS[rng.usize_below(LETTERS.len())]),
            }
        };
        strings.push(s);
    }
    let n = rng.range_usize(10, 250);
    let mut ops = Vec::with_capacity(n + 1);
    for _ in 0..n {
        let si = rng.usize_below(strings.len());
        ops.push(match rng.below(20) {
            0 => IOp::Serde,
            1..=4 => IOp::Get(si),
            _ => IOp::Intern(si),
        });
    }
    ops.push(IOp::Serde);
    let distinct = run_all_configs(obs, &strings, &ops);
    obs.add("intern_random_plans", 1);
    obs.add(
        &format!("intern_random_distinct_strings_{}", match distinct {
            0..=1 => "le1",
            2..=7 => "2to7",
            8..=19 => "8to19",
            _ => "ge20",
        }),
        1,
    );
    if distinct >= 2 {
        obs.nontrivial(&(&strings, &ops));
    }
    if obs.wants_sample() {
        let shown = show_plan(&strings, &ops);
        obs.sample(json!({"pool": strings, "operations": ops.len(), "distinct_strings_interned": distinct,
            "first_operations": shown[..shown.len().min(16)]}));
    }
}

// ------------------------------------------------------------------------------------------
// calibration: the model on the module's doc example and unit tests
// (crates/texcraft-stdext/src/collections/interner.rs)

pub fn calibrate(obs: &mut Obs) {
    let mut m = InternModel::new();
    let hello_1 = m.get_or_intern("hello").0;
    let world_1 = m.get_or_intern("world").0;
    let hello_2 = m.get_or_intern("hello").0;
    obs.count("calibration_interner_examples");
    let ok = hello_1 == hello_2
        && hello_1 != world_1
        && m.resolve(hello_1) == Some("hello")
        && m.resolve(world_1) == Some("world")
        && m.get("hello") == Some(hello_1)
        && m.get("other").is_none();
    if !ok {
        obs.violation("calibration: interner model disagrees with the module's doc example", json!({}));
    }
}
