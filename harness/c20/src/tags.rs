//! C20 part 4: command tags under real threads.
//!
//! T threads are released together by a barrier; each creates N tags with `Tag::new()` and reads
//! one shared `StaticTag`. Merged afterwards: all T*N tags (and the static one) are pairwise
//! distinct, distinct from every tag of earlier rounds of the case, and every thread saw the same
//! value of the static tag. The *ownership interleaving* of a round is the sequence of thread ids
//! ordered by tag value (`Tag: Ord`); the number of distinct interleavings and of owner switches is
//! evidence that creations really overlapped. Schedules are sampled, not enumerated.

use std::collections::HashSet;
use std::sync::Barrier;
use texlang::command::{StaticTag, Tag};
use vcore::{json, Obs, Rng, Tier};

pub const THREADS: [usize; 3] = [2, 8, 64];

struct Round {
    /// (tag, thread) of every creation
    created: Vec<(Tag, u16)>,
    /// value of the shared static tag as seen by each thread, first and second read
    static_seen: Vec<(Tag, Tag)>,
    panicked: usize,
}

fn run_round(t: usize, n: usize, order: &[usize], spins: &[u32]) -> Round {
    let barrier = Barrier::new(t);
    let shared = StaticTag::new();
    let mut created = Vec::with_capacity(t * n);
    let mut static_seen = Vec::with_capacity(t);
    let mut panicked = 0;
    std::thread::scope(|scope| {
        let mut handles = Vec::with_capacity(t);
        // varying start order: thread ids are spawned in a permuted order, each with its own
        // short spin between the barrier and its first creation
        for &id in order {
            let barrier = &barrier;
            let shared = &shared;
            let spin = spins[id];
            handles.push(scope.spawn(move || {
                let mut mine: Vec<Tag> = Vec::with_capacity(n);
                barrier.wait();
                let mut x = 0u32;
                for i in 0..spin {
                    x = std::hint::black_box(x.wrapping_add(i));
                }
                let s1 = shared.get();
                for _ in 0..n {
                    mine.push(Tag::new());
                }
                let s2 = shared.get();
                (id, mine, s1, s2)
            }));
        }
        for h in handles {
            match h.join() {
                Ok((id, mine, s1, s2)) => {
                    created.extend(mine.into_iter().map(|tag| (tag, id as u16)));
                    static_seen.push((s1, s2));
                }
                Err(_) => panicked += 1,
            }
        }
    });
    Round {
        created,
        static_seen,
        panicked,
    }
}

pub fn tags_case(idx: u64, rng: &mut Rng, obs: &mut Obs) {
    let t = THREADS[(idx % 3) as usize];
    let (n, rounds) = match (obs.tier, t) {
        (Tier::Quick, 2) => (20_000, 6),
        (Tier::Quick, 8) => (5_000, 4),
        (Tier::Quick, _) => (1_500, 2),
        (Tier::Thorough, 2) => (50_000, 12),
        (Tier::Thorough, 8) => (20_000, 8),
        (Tier::Thorough, _) => (10_000, 3),
    };
    let mut all_in_case: HashSet<Tag> = HashSet::new();
    let mut interleavings: HashSet<u64> = HashSet::new();
    for round in 0..rounds {
        let mut order: Vec<usize> = (0..t).collect();
        rng.shuffle(&mut order);
        let spins: Vec<u32> = (0..t)
            .map(|_| if rng.coin() { 0 } else { rng.below(2000) as u32 })
            .collect();
        let mut r = run_round(t, n, &order, &spins);
        obs.add("tags_rounds", 1);
        obs.add(&format!("tags_rounds_{t}_threads"), 1);
        if r.panicked > 0 {
            obs.violation(
                "tags/thread-panicked-in-Tag::new-or-StaticTag::get",
                json!({"threads": t, "creations_per_thread": n, "round": round, "threads_panicked": r.panicked}),
            );
            return;
        }
        obs.add("tags_created", r.created.len() as u64);
        // pairwise distinct within the round
        r.created.sort_unstable();
        if let Some(w) = r.created.windows(2).find(|w| w[0].0 == w[1].0) {
            obs.violation(
                "tags/duplicate-tag-within-round",
                json!({"threads": t, "creations_per_thread": n, "round": round,
                       "tag": format!("{:?}", w[0].0), "owners": [w[0].1, w[1].1],
                       "duplicates_in_round": r.created.windows(2).filter(|w| w[0].0 == w[1].0).count()}),
            );
            return;
        }
        if r.created.len() != t * n {
            obs.inconclusive("a tag thread returned fewer tags than it was asked to create");
            return;
        }
        // the static tag: one value for everybody, stable, and not one of the fresh tags
        let s0 = r.static_seen[0].0;
        obs.add("tags_static_reads", 2 * r.static_seen.len() as u64);
        if r.static_seen.iter().any(|(a, b)| *a != s0 || *b != s0) {
            let seen: HashSet<String> = r
                .static_seen
                .iter()
                .flat_map(|(a, b)| [format!("{a:?}"), format!("{b:?}")])
                .collect();
            obs.violation(
                "tags/static-tag-resolved-to-several-values",
                json!({"threads": t, "round": round, "values_seen": seen.into_iter().collect::<Vec<_>>()}),
            );
            return;
        }
        if r.created.binary_search_by(|p| p.0.cmp(&s0)).is_ok() {
            obs.violation(
                "tags/static-tag-equals-a-fresh-tag",
                json!({"threads": t, "round": round, "tag": format!("{s0:?}")}),
            );
            return;
        }
        // distinct from everything created earlier in this case (earlier rounds, earlier statics)
        let mut clash = None;
        for (tag, _) in &r.created {
            if !all_in_case.insert(*tag) {
                clash = Some(*tag);
                break;
            }
        }
        if clash.is_none() && !all_in_case.insert(s0) {
            clash = Some(s0);
        }
        if let Some(tag) = clash {
            obs.violation(
                "tags/tag-reused-across-rounds",
                json!({"threads": t, "round": round, "tag": format!("{tag:?}")}),
            );
            return;
        }
        // ownership interleaving
        let owners: Vec<u16> = r.created.iter().map(|p| p.1).collect();
        let switches = owners.windows(2).filter(|w| w[0] != w[1]).count();
        obs.add("tags_owner_switches", switches as u64);
        if switches > t - 1 {
            // more switches than a purely sequential execution of the threads would give
            obs.add("tags_rounds_truly_interleaved", 1);
            obs.add(&format!("tags_rounds_truly_interleaved_{t}_threads"), 1);
        }
        let h = vcore::stable_hash(&owners);
        if interleavings.insert(h) {
            obs.add("tags_distinct_ownership_interleavings", 1);
            obs.nontrivial_hash(vcore::stable_hash(&("tags", t, h)));
        }
        if round == 0 && obs.wants_sample() {
            let first = owners.iter().take(40).map(|o| o.to_string()).collect::<Vec<_>>().join(" ");
            obs.sample(json!({"threads": t, "creations_per_thread": n, "owner_switches": switches,
                "first_40_owners_in_tag_order": first, "static_tag": format!("{s0:?}"),
                "lowest_tag": format!("{:?}", r.created[0].0), "highest_tag": format!("{:?}", r.created[r.created.len()-1].0)}));
        }
    }
}

/// Single-threaded sequential contract, from the doc examples and the unit test in
/// crates/texlang/src/command/mod.rs: consecutive tags differ, a static tag is stable and differs
/// from other static tags. (This runs the real code: there is no model to calibrate for tags; it
/// guards the harness' assumptions that `Tag` is `Ord + Hash + Debug`.)
pub fn sequential_case(obs: &mut Obs) {
    static S1: StaticTag = StaticTag::new();
    static S2: StaticTag = StaticTag::new();
    let a = Tag::new();
    let b = Tag::new();
    let s1 = S1.get();
    let s2 = S2.get();
    let c = Tag::new();
    let all = [a, b, s1, s2, c];
    let distinct: HashSet<Tag> = all.iter().copied().collect();
    obs.add("tags_sequential_checks", 1);
    if distinct.len() != all.len() {
        obs.violation(
            "tags/sequential-tags-not-distinct",
            json!({"tags": all.iter().map(|t| format!("{t:?}")).collect::<Vec<_>>()}),
        );
    }
    if S1.get() != s1 || S2.get() != s2 {
        obs.violation("tags/static-tag-not-stable", json!({}));
    }
}
