fn main() {
    vcore::run_main(&c20::MONITOR)
}
