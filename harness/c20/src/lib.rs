//! Monitor for property C20 (see /verif/DESIGN.md §6): core containers and identifiers.
//!
//! Four independent parts, each driving the real code at its public API and comparing with a
//! naive model from `vmodels::containers`:
//!   gm.rs     GroupingHashMap / GroupingVec   vs stack of snapshots (+ iter_all -> FromIterator)
//!   intern.rs Interner                        vs "ordinal of first occurrence"
//!   kmp.rs    substringsearch::Matcher        vs window comparison
//!   tags.rs   command::Tag / StaticTag        uniqueness under real threads
//! Miri and ThreadSanitizer runs of the tag code are separate stages (/verif/stages/C20.sh).

pub mod gm;
pub mod intern;
pub mod kmp;
pub mod tags;

use vcore::*;

pub struct M;
pub static MONITOR: M = M;

fn gm_len(tier: Tier) -> u32 {
    tier.pick(7, 8) as u32
}
fn bfs_ops(tier: Tier) -> u8 {
    tier.pick(12, 15) as u8
}
fn intern_len(tier: Tier) -> u32 {
    tier.pick(7, 8) as u32
}
fn kmp_dims(tier: Tier) -> (u32, u32) {
    (tier.pick(5, 6) as u32, tier.pick(12, 13) as u32)
}

impl Monitor for M {
    fn id(&self) -> &'static str {
        "C20"
    }

    fn rule(&self) -> String {
        "gm_exhaustive: case = 10^4 consecutive histories of fixed length L over the 10-letter alphabet \
         {local,global}x{key 1,3}x{value 7,9}+begin+end (L=7 quick, 8 thorough), run on GroupingHashMap AND \
         GroupingVec, compared with the stack-of-snapshots model after every operation (so all shorter \
         histories are covered as prefixes), then iter_all -> model replay + real FromIterator, 6 further \
         seed-chosen operations on (original, rebuilt, model) and a full unwind; a history is non-trivial \
         when some end_group had a value to restore/delete or a global insert had a saved value to purge \
         (distinct by construction). gm_bfs: distinct model states reachable within D operations (D=12 \
         quick, 15 thorough) in BFS order; per state its shortest history followed by each of the 10 \
         operations, same checks; distinct = packed state. gm_random: 60-400 operations over 16 keys out \
         of 0..48, depth <= 12, a never-repeated value per write, rebuilds at random points (also of \
         rebuilt containers); non-trivial = has a restoring end at depth >= 2, a purging global insert and \
         a rebuild with hidden values; distinct = operation list. interner_exhaustive: all sequences of \
         length L (7/8) over {\"\",a,b,ab,ba,aba} x 5 (hasher,key type) configurations with serde round \
         trips; interner_random: pools of near-duplicate (prefix/suffix/concatenation, multi-byte) \
         strings. kmp_exhaustive: every pattern of length <= P and text of length T over {a,b,c} \
         (P,T = 5,12 quick; 6,13 thorough), answer compared after every element; non-trivial = text \
         contains the pattern. kmp_random: periodic patterns up to 16, texts up to 300 assembled from \
         pattern pieces (each case also drives a Nevec against a never-empty Vec). tags: T in {2,8,64} threads behind a barrier, N creations each, several \
         rounds; distinct = ownership interleaving (thread ids in tag order)."
            .into()
    }

    fn assumptions(&self) -> Vec<String> {
        vec![
            "The reference models (vmodels::containers) are the naive reading of the contracts in the module docs; they are calibrated against the repository's own iter_all test table, doc examples and unit tests.".into(),
            "Interner keys are treated as opaque (no numbering assumed); key types exercised: NonZeroU32 and texlang::token::CsName.".into(),
            "Thread schedules are sampled by the OS scheduler (and by Miri's seeded scheduler in the miri stage), not enumerated: a clean run means no duplicate tag and no race on the interleavings observed.".into(),
            "Open-group count is read through hook H1 (GroupingContainer::verif_num_groups, feature `verif`) and independently through end_group failing exactly when the model has no open group.".into(),
            "Tag counter overflow after 2^32 creations in one process (checked_add unwrap) is outside the quantifier.".into(),
        ]
    }

    fn phases(&self, tier: Tier) -> Vec<Phase> {
        let (kp, kt) = kmp_dims(tier);
        vec![
            Phase::new("tags_sequential", 16).batch(1),
            Phase::new("tags", tier.pick(48, 240)).batch(1),
            Phase::new("gm_exhaustive", gm::exhaustive_cases(gm_len(tier)))
                .batch(2)
                .exhaustive(match tier {
                    Tier::Quick => "all 10^7 histories of length 7 (hence all of length <= 7) over {local,global}x2 keys x2 values+begin+end, on both backing containers",
                    Tier::Thorough => "all 10^8 histories of length 8 (hence all of length <= 8) over {local,global}x2 keys x2 values+begin+end, on both backing containers",
                }),
            Phase::new("gm_bfs", gm::bfs_cases(bfs_ops(tier)))
                .batch(4)
                .exhaustive(match tier {
                    Tier::Quick => "all distinct model states reachable within 12 operations over the same alphabet, each followed by each of the 10 operations",
                    Tier::Thorough => "all distinct model states reachable within 15 operations over the same alphabet, each followed by each of the 10 operations",
                }),
            Phase::new("gm_random", tier.pick(16_000, 600_000)).batch(32),
            Phase::new("interner_exhaustive", intern::exhaustive_cases(intern_len(tier)))
                .batch(2)
                .exhaustive(match tier {
                    Tier::Quick => "all 6^7 intern sequences of length 7 over {\"\",a,b,ab,ba,aba} under constant, len-mod-3 and RandomState hashers",
                    Tier::Thorough => "all 6^8 intern sequences of length 8 over {\"\",a,b,ab,ba,aba} under constant, len-mod-3 and RandomState hashers",
                }),
            Phase::new("interner_random", tier.pick(6_000, 200_000)).batch(32),
            Phase::new("kmp_exhaustive", kmp::exhaustive_cases(kp, kt))
                .batch(64)
                .exhaustive(match tier {
                    Tier::Quick => "every pattern of length 1..5 x every text of length 12 (hence <= 12) over {a,b,c}",
                    Tier::Thorough => "every pattern of length 1..6 x every text of length 13 (hence <= 13) over {a,b,c}",
                }),
            Phase::new("kmp_random", tier.pick(40_000, 2_000_000)).batch(64),
        ]
    }

    fn floors(&self, tier: Tier) -> Vec<(&'static str, u64)> {
        let q = tier == Tier::Quick;
        let mut v = vec![
            // grouping containers: every class of event the model distinguishes must have occurred
            ("gm_exhaustive_histories", if q { 10_000_000 } else { 100_000_000 }),
            ("gm_ops_checked_hashmap", 100_000_000),
            ("gm_ops_checked_vec", 100_000_000),
            ("gm_local_insert_new_key_in_group", 1_000_000),
            ("gm_local_insert_depth_ge2", 1_000_000),
            ("gm_global_insert_purging_saved_value", 1_000_000),
            ("gm_end_restoring_value", 1_000_000),
            ("gm_end_deleting_key", 1_000_000),
            ("gm_end_restoring_depth_ge2", 100_000),
            ("gm_end_without_group", 1_000_000),
            ("gm_rebuilds", 20_000_000),
            ("gm_rebuilds_with_hidden_values", 1_000_000),
            ("gm_ops_on_rebuilt_shadow", 50_000_000),
            ("gm_bfs_states", 1_000),
            ("gm_bfs_states_beyond_exhaustive_length", 100),
            ("gm_random_histories", if q { 16_000 } else { 600_000 }),
            ("gm_ops_at_depth_12", 1_000),
            // interner
            ("intern_ops_constant", 1_000_000),
            ("intern_ops_random", 1_000_000),
            ("intern_repeat_found_behind_chain_head", 100_000),
            ("intern_serde_roundtrips_nonempty", 100_000),
            ("intern_new_after_serde", 10_000),
            ("intern_repeat_after_serde", 10_000),
            ("intern_empty_string_ops", 10_000),
            // matcher
            ("kmp_texts", 100_000_000),
            ("kmp_overlapping_matches", 100_000),
            ("kmp_matches_starting_inside_failed_partial_match", 100_000),
            ("nevec_ops_checked", 100_000),
            // tags
            ("tags_created", if q { 1_000_000 } else { 20_000_000 }),
            ("tags_rounds_64_threads", 10),
            ("tags_rounds_truly_interleaved", 20),
            ("tags_distinct_ownership_interleavings", 20),
            ("tags_static_reads", 100),
        ];
        // The Miri / TSan stages run before this binary when it is started through ./check
        // (which then sets VERIF_STAGE_DIR); a stage that produced nothing must not pass.
        let staged = std::env::var("VERIF_STAGE_DIR").map(|s| !s.is_empty()).unwrap_or(false);
        if staged {
            v.push(("miri:tag_seeds_clean", if q { 8 } else { 64 }));
            v.push(("miri:distinct_ownership_interleavings", if q { 8 } else { 64 }));
            v.push(("miri:container_runs_clean", 1));
            if !q {
                v.push(("tsan:runs_clean", 5));
                v.push(("tsan:tags_created", 5_000_000));
            }
        }
        v
    }

    fn calibrate(&self, obs: &mut Obs) {
        gm::calibrate(obs);
        intern::calibrate(obs);
        kmp::calibrate(obs);
    }

    fn run_case(&self, phase: &str, idx: u64, rng: &mut Rng, obs: &mut Obs) {
        let tier = obs.tier;
        match phase {
            "tags_sequential" => tags::sequential_case(obs),
            "tags" => tags::tags_case(idx, rng, obs),
            "gm_exhaustive" => gm::exhaustive_case(gm_len(tier), idx, rng, obs),
            "gm_bfs" => gm::bfs_case(bfs_ops(tier), idx, rng, obs),
            "gm_random" => gm::random_case(rng, obs),
            "interner_exhaustive" => intern::exhaustive_case(intern_len(tier), idx, rng, obs),
            "interner_random" => intern::random_case(rng, obs),
            "kmp_exhaustive" => {
                let (p, t) = kmp_dims(tier);
                kmp::exhaustive_case(p, t, idx, obs)
            }
            "kmp_random" => kmp::random_case(rng, obs),
            other => obs.inconclusive(format!("unknown phase {other}")),
        }
    }

    fn stack_bytes(&self) -> usize {
        64 << 20
    }
}
