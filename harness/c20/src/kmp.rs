//! C20 part 3: the streaming KMP `Matcher` against naive window comparison.
//!
//! `Search::next(x)` must return true exactly when the last m elements handed in equal the
//! pattern - so every prefix of a text is checked while the text is streamed, and enumerating all
//! texts of length L covers all texts of length <= L.

use texcraft_stdext::algorithms::substringsearch::Matcher;
use texcraft_stdext::collections::nevec::Nevec;
use vcore::{json, Obs, Rng};
use vmodels::containers::{window_match_at, window_matches};

pub const ALPHABET: u64 = 3;
/// trailing text letters enumerated inside one case
pub const TEXT_CHUNK_LETTERS: u32 = 8;

pub fn pattern_count(max_len: u32) -> u64 {
    (1..=max_len).map(|l| ALPHABET.pow(l)).sum()
}

pub fn exhaustive_cases(max_pat: u32, text_len: u32) -> u64 {
    pattern_count(max_pat) * ALPHABET.pow(text_len - TEXT_CHUNK_LETTERS)
}

fn nth_pattern(mut p: u64) -> Vec<u8> {
    let mut len = 1u32;
    loop {
        let n = ALPHABET.pow(len);
        if p < n {
            break;
        }
        p -= n;
        len += 1;
    }
    let mut v = vec![0u8; len as usize];
    for i in (0..len as usize).rev() {
        v[i] = (p % ALPHABET) as u8;
        p /= ALPHABET;
    }
    v
}

fn letters(v: &[u8]) -> String {
    v.iter().map(|b| (b'a' + *b) as char).collect()
}

fn make_matcher(pattern: &[u8]) -> Matcher<u8> {
    Matcher::new(Nevec::new_with_tail(pattern[0], pattern[1..].to_vec()))
}

#[derive(Default)]
struct KStats {
    texts: u64,
    steps: u64,
    matches: u64,
    overlapping: u64,
    texts_with_match: u64,
    texts_with_overlap: u64,
    match_after_partial_fallback: u64,
}

impl KStats {
    fn flush(&self, obs: &mut Obs) {
        obs.add("kmp_texts", self.texts);
        obs.add("kmp_steps_checked", self.steps);
        obs.add("kmp_matches", self.matches);
        obs.add("kmp_overlapping_matches", self.overlapping);
        obs.add("kmp_texts_with_match", self.texts_with_match);
        obs.add("kmp_texts_with_overlapping_matches", self.texts_with_overlap);
        obs.add("kmp_matches_starting_inside_failed_partial_match", self.match_after_partial_fallback);
    }
}

/// Stream `text` through a fresh search; `Err(i)` = first position where the answer differs.
fn stream_check(matcher: &Matcher<u8>, pattern: &[u8], text: &[u8], st: &mut KStats) -> Result<(), usize> {
    let mut search = matcher.start();
    let m = pattern.len();
    let mut last_match: Option<usize> = None;
    let mut any = false;
    let mut overlap = false;
    for i in 0..text.len() {
        let got = search.next(&text[i]);
        let want = window_match_at(pattern, text, i);
        st.steps += 1;
        if got != want {
            return Err(i);
        }
        if want {
            st.matches += 1;
            any = true;
            if let Some(j) = last_match {
                if i - j < m {
                    st.overlapping += 1;
                    overlap = true;
                }
            }
            last_match = Some(i);
            // the match starts strictly inside an earlier, failed partial match: the matcher can
            // only find it through the prefix function (a naive restart would miss it). Detected
            // naively: some earlier start s < i+1-m had text[s..] agreeing with the pattern up to a
            // point at or beyond this match's start, and then failed.
            let start = i + 1 - m;
            for s in start.saturating_sub(m)..start {
                let mut l = 0;
                while l < m && s + l <= i && text[s + l] == pattern[l] {
                    l += 1;
                }
                if l < m && s + l > start {
                    st.match_after_partial_fallback += 1;
                    break;
                }
            }
        }
    }
    st.texts += 1;
    if any {
        st.texts_with_match += 1;
    }
    if overlap {
        st.texts_with_overlap += 1;
    }
    Ok(())
}

fn report_mismatch(obs: &mut Obs, pattern: &[u8], text: &[u8], at: usize, matcher: &Matcher<u8>) {
    let mut s = matcher.start();
    let got: Vec<bool> = text.iter().map(|c| s.next(c)).collect();
    let want = window_matches(pattern, text);
    let kind = if want[at] {
        "missed-occurrence"
    } else {
        "reported-non-occurrence"
    };
    obs.violation(
        format!("matcher/{kind}"),
        json!({"pattern": letters(pattern), "text": letters(text), "first_difference_at": at,
               "matcher_says": got, "windows_say": want}),
    );
}

/// Case = (pattern, leading text letters); enumerates the 3^8 completions of the text.
pub fn exhaustive_case(max_pat: u32, text_len: u32, idx: u64, obs: &mut Obs) {
    let prefixes = ALPHABET.pow(text_len - TEXT_CHUNK_LETTERS);
    let pattern = nth_pattern(idx / prefixes);
    debug_assert!(pattern.len() <= max_pat as usize);
    let mut text = vec![0u8; text_len as usize];
    let mut x = idx % prefixes;
    for i in (0..(text_len - TEXT_CHUNK_LETTERS) as usize).rev() {
        text[i] = (x % ALPHABET) as u8;
        x /= ALPHABET;
    }
    let mut st = KStats::default();
    let mut current: Vec<u8> = text.clone();
    let r = vcore::catch(|| {
        let matcher = make_matcher(&pattern);
        if matcher.substring().len() != pattern.len() {
            return Some((text.clone(), usize::MAX));
        }
        let tail0 = (text_len - TEXT_CHUNK_LETTERS) as usize;
        for low in 0..ALPHABET.pow(TEXT_CHUNK_LETTERS) {
            let mut y = low;
            for i in (tail0..text_len as usize).rev() {
                text[i] = (y % ALPHABET) as u8;
                y /= ALPHABET;
            }
            current.copy_from_slice(&text);
            if let Err(at) = stream_check(&matcher, &pattern, &text, &mut st) {
                return Some((text.clone(), at));
            }
        }
        None
    });
    match r {
        Ok(None) => {}
        Ok(Some((t, at))) => {
            if at == usize::MAX {
                obs.violation("matcher/substring-accessor", json!({"pattern": letters(&pattern)}));
            } else {
                let matcher = make_matcher(&pattern);
                report_mismatch(obs, &pattern, &t, at, &matcher);
            }
        }
        Err(p) => obs.repo_panic(
            &p,
            json!({"pattern": letters(&pattern), "text_being_streamed": letters(&current)}),
        ),
    }
    obs.nontrivial_by_construction(st.texts_with_match);
    if idx % 997 == 0 && obs.wants_sample() {
        obs.sample(json!({"pattern": letters(&pattern), "text_prefix": letters(&current[..(text_len - TEXT_CHUNK_LETTERS) as usize]),
            "texts": st.texts, "matches": st.matches, "overlapping": st.overlapping}));
    }
    st.flush(obs);
}

/// Random long inputs with heavy self-overlap: periodic patterns, texts assembled from pattern
/// prefixes, whole patterns and noise.
pub fn random_case(rng: &mut Rng, obs: &mut Obs) {
    let alpha = rng.range_usize(2, 4) as u8;
    let base_len = rng.range_usize(1, 4);
    let base: Vec<u8> = (0..base_len).map(|_| rng.below(alpha as u64) as u8).collect();
    let plen = rng.range_usize(1, 16);
    let mut pattern: Vec<u8> = (0..plen).map(|i| base[i % base_len]).collect();
    // perturb: a periodic word with a defect has long borders and a non-trivial prefix function
    for _ in 0..rng.below(3) {
        let i = rng.usize_below(plen);
        pattern[i] = rng.below(alpha as u64) as u8;
    }
    let matcher_r = vcore::catch(|| make_matcher(&pattern));
    let matcher = match matcher_r {
        Ok(m) => m,
        Err(p) => {
            obs.repo_panic(&p, json!({"pattern": letters(&pattern), "during": "Matcher::new"}));
            return;
        }
    };
    let mut st = KStats::default();
    let ntexts = rng.range_usize(1, 4);
    let mut texts = vec![];
    for _ in 0..ntexts {
        let target = rng.range_usize(1, 300);
        let mut text: Vec<u8> = vec![];
        while text.len() < target {
            match rng.below(6) {
                0 => text.push(rng.below(alpha as u64) as u8),
                1 | 2 => text.extend_from_slice(&pattern),
                3 => {
                    let cut = rng.usize_below(plen + 1);
                    text.extend_from_slice(&pattern[..cut]);
                }
                4 => {
                    let cut = rng.usize_below(plen + 1);
                    text.extend_from_slice(&pattern[cut..]);
                }
                _ => {
                    for _ in 0..rng.range_usize(1, 5) {
                        text.extend_from_slice(&base);
                    }
                }
            }
        }
        // the same Matcher serves several searches
        let r = vcore::catch(|| stream_check(&matcher, &pattern, &text, &mut st));
        match r {
            Ok(Ok(())) => {}
            Ok(Err(at)) => report_mismatch(obs, &pattern, &text, at, &matcher),
            Err(p) => obs.repo_panic(&p, json!({"pattern": letters(&pattern), "text": letters(&text)})),
        }
        texts.push(text);
    }
    nevec_check(rng, obs);
    obs.add("kmp_random_cases", 1);
    if st.texts_with_overlap > 0 {
        obs.nontrivial(&(&pattern, &texts));
    }
    if obs.wants_sample() {
        obs.sample(json!({"pattern": letters(&pattern), "first_text": letters(&texts[0]),
            "matches": st.matches, "overlapping": st.overlapping}));
    }
    st.flush(obs);
}

/// `Nevec` (the matcher's pattern and prefix-function storage) against a plain `Vec` that is never
/// allowed to become empty: every accessor after every mutation.
fn nevec_check(rng: &mut Rng, obs: &mut Obs) {
    let first = rng.below(200) as u8;
    let mut model: Vec<u8> = vec![first];
    let mut log: Vec<String> = vec![format!("new({first})")];
    let r = vcore::catch(|| -> Result<u64, String> {
        let mut real: Nevec<u8> = match rng.below(3) {
            0 => Nevec::new(first),
            1 => Nevec::with_capacity(first, rng.usize_below(8)),
            _ => {
                let tail: Vec<u8> = (0..rng.usize_below(5)).map(|_| rng.below(200) as u8).collect();
                model.extend_from_slice(&tail);
                log.push(format!("new_with_tail(.., {tail:?})"));
                Nevec::new_with_tail(first, tail)
            }
        };
        let mut ops = 0u64;
        for _ in 0..rng.range_usize(1, 40) {
            match rng.below(5) {
                0 | 1 => {
                    let x = rng.below(200) as u8;
                    log.push(format!("push({x})"));
                    real.push(x);
                    model.push(x);
                }
                2 => {
                    log.push("pop_from_tail".into());
                    let got = real.pop_from_tail();
                    let want = if model.len() > 1 { model.pop() } else { None };
                    if got != want {
                        return Err(format!("pop_from_tail returned {got:?}, a never-empty Vec gives {want:?}"));
                    }
                }
                3 => {
                    let x = rng.below(200) as u8;
                    log.push(format!("*last_mut() = {x}"));
                    *real.last_mut() = x;
                    *model.last_mut().unwrap() = x;
                }
                _ => {
                    let i = rng.usize_below(model.len() + 2);
                    let x = rng.below(200) as u8;
                    log.push(format!("get_mut({i}) <- {x}"));
                    match (real.get_mut(i), model.get_mut(i)) {
                        (Some(a), Some(b)) => {
                            *a = x;
                            *b = x;
                        }
                        (None, None) => {}
                        _ => return Err(format!("get_mut({i}) presence differs")),
                    }
                }
            }
            ops += 1;
            if real.len() != model.len() {
                return Err(format!("len {} vs {}", real.len(), model.len()));
            }
            if real.last() != model.last().unwrap() {
                return Err("last differs".into());
            }
            for i in 0..model.len() + 1 {
                if real.get(i) != model.get(i) {
                    return Err(format!("get({i}) differs"));
                }
            }
            for (i, want) in model.iter().enumerate() {
                if real[i] != *want {
                    return Err(format!("index [{i}] differs"));
                }
            }
            let iterated: Vec<u8> = (&real).into_iter().copied().collect();
            if iterated != model {
                return Err(format!("iteration gives {iterated:?}, Vec holds {model:?}"));
            }
            let shown = format!("{real}");
            let want: String = model.iter().map(|x| x.to_string()).collect();
            if shown != want {
                return Err(format!("Display gives {shown:?}, Vec gives {want:?}"));
            }
        }
        let want = *model.last().unwrap();
        let got = real.pop();
        if got != want {
            return Err(format!("pop returned {got}, Vec's last element is {want}"));
        }
        Ok(ops)
    });
    match r {
        Ok(Ok(ops)) => obs.add("nevec_ops_checked", ops),
        Ok(Err(what)) => {
            let sig: String = what.chars().filter(|c| !c.is_ascii_digit()).take(24).collect();
            obs.violation(format!("nevec/{}", sig.trim()), json!({"operations": log, "difference": what}))
        }
        Err(p) => obs.repo_panic(&p, json!({"operations": log})),
    }
}

/// The module's doc example (crates/texcraft-stdext/src/algorithms/substringsearch.rs).
pub fn calibrate(obs: &mut Obs) {
    obs.count("calibration_matcher_examples");
    if window_matches(&[2, 3, 2], &[1, 2, 3, 2, 3, 2]) != vec![false, false, false, true, false, true] {
        obs.violation("calibration: window model disagrees with the module's doc example", json!({}));
    }
}
