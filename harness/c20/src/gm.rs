//! C20 part 1: `GroupingHashMap` / `GroupingVec` against the stack-of-snapshots model.
//!
//! Three phases drive the real containers:
//!   * `gm_exhaustive` - every history of a fixed length over the 10-letter alphabet
//!     {local,global} x 2 keys x 2 values + begin + end (all shorter histories are its prefixes and
//!     the comparison happens after every operation);
//!   * `gm_bfs`        - breadth-first search over the distinct *model* states reachable within D
//!     operations; for each state its shortest history followed by each of the 10 operations;
//!   * `gm_random`     - long random histories over 16 keys, depth <= 12, a unique value per write.
//! After a history the container's `iter_all()` is (a) replayed through the model and must give
//! the same stack of snapshots, (b) fed to the real `FromIterator`, and the rebuilt container must
//! stay equal to the original and to the model under further operations and a full unwind.

use std::collections::HashMap;
use std::sync::{Mutex, OnceLock};
use texcraft_stdext::collections::groupingmap::{BackingContainer, GroupingContainer, Item, Scope};
use vcore::{json, Obs, Rng, Value};
use vmodels::containers::{ReplayItem, ScopedMap};

pub type V = u32;
pub type Model = ScopedMap<usize, V>;
pub type GC<T> = GroupingContainer<usize, V, T>;
pub type HashBacked = HashMap<usize, V>;
pub type VecBacked = Vec<Option<V>>;

#[derive(Clone, Copy, Debug, PartialEq, Eq, Hash)]
pub enum Op {
    Local(usize, V),
    Global(usize, V),
    Begin,
    End,
}

impl Op {
    pub fn show(&self) -> String {
        match self {
            Op::Local(k, v) => format!("local({k}={v})"),
            Op::Global(k, v) => format!("global({k}={v})"),
            Op::Begin => "begin".into(),
            Op::End => "end".into(),
        }
    }
}

pub fn show_ops(ops: &[Op]) -> Vec<String> {
    ops.iter().map(|o| o.show()).collect()
}

/// The small alphabet: letters 0..10. Keys 1 and 3 leave holes in the vector-backed container.
pub const SMALL_KEYS: [usize; 2] = [1, 3];
pub const SMALL_VALS: [V; 2] = [7, 9];

pub fn small_op(letter: u8) -> Op {
    match letter {
        0..=3 => Op::Local(
            SMALL_KEYS[(letter / 2) as usize],
            SMALL_VALS[(letter % 2) as usize],
        ),
        4..=7 => Op::Global(
            SMALL_KEYS[((letter - 4) / 2) as usize],
            SMALL_VALS[((letter - 4) % 2) as usize],
        ),
        8 => Op::Begin,
        _ => Op::End,
    }
}

// ------------------------------------------------------------------------------------------
// observation counters (array-indexed: the exhaustive phase performs ~10^9 increments)

#[derive(Clone, Copy)]
#[repr(usize)]
pub enum C {
    OpsChecked,
    LocalInGroup,
    LocalDepthGe2,
    LocalNewKeyInGroup,
    GlobalInGroup,
    GlobalPurging,
    Begin,
    EndOk,
    EndOnEmpty,
    EndRestoring,
    EndDeleting,
    EndRestoringDepthGe2,
    Rebuilds,
    RebuildsHidden,
    RebuildItems,
    RebuildStructEq,
    ShadowOps,
    UnwindSteps,
    H1Checks,
    DepthGe6Ops,
    DepthEq12Ops,
    N,
}

const NAMES: [&str; C::N as usize] = [
    "gm_ops_checked",
    "gm_local_insert_in_group",
    "gm_local_insert_depth_ge2",
    "gm_local_insert_new_key_in_group",
    "gm_global_insert_in_group",
    "gm_global_insert_purging_saved_value",
    "gm_begin",
    "gm_end_ok",
    "gm_end_without_group",
    "gm_end_restoring_value",
    "gm_end_deleting_key",
    "gm_end_restoring_depth_ge2",
    "gm_rebuilds",
    "gm_rebuilds_with_hidden_values",
    "gm_rebuild_items",
    "gm_rebuild_structurally_equal",
    "gm_ops_on_rebuilt_shadow",
    "gm_unwind_steps",
    "gm_h1_group_count_checks",
    "gm_ops_at_depth_ge6",
    "gm_ops_at_depth_12",
];

pub struct Stats(pub [u64; C::N as usize]);

impl Default for Stats {
    fn default() -> Self {
        Stats([0; C::N as usize])
    }
}

impl Stats {
    #[inline]
    pub fn hit(&mut self, c: C) {
        self.0[c as usize] += 1;
    }
    #[inline]
    pub fn add(&mut self, c: C, n: u64) {
        self.0[c as usize] += n;
    }
    pub fn get(&self, c: C) -> u64 {
        self.0[c as usize]
    }
    pub fn flush(&self, obs: &mut Obs, kind: &str) {
        for (i, n) in self.0.iter().enumerate() {
            if *n > 0 {
                obs.add(NAMES[i], *n);
            }
        }
        obs.add(&format!("gm_ops_checked_{kind}"), self.get(C::OpsChecked));
        // recorded only: rebuilt containers that differ under the container's own `==`
        let uneq = self.get(C::Rebuilds) - self.get(C::RebuildStructEq);
        if uneq > 0 {
            obs.add(&format!("gm_rebuild_not_equal_under_PartialEq_{kind}"), uneq);
        }
    }
}

// ------------------------------------------------------------------------------------------
// lock-step execution

pub struct Mismatch {
    /// stable description of *what* differed
    pub what: String,
    pub info: Value,
}

#[derive(Debug, PartialEq, Eq, Clone, Copy)]
enum OpResult {
    Inserted(bool),
    Began,
    Ended(bool),
}

fn apply_real<T: BackingContainer<usize, V>>(c: &mut GC<T>, op: Op) -> OpResult {
    match op {
        Op::Local(k, v) => OpResult::Inserted(c.insert(k, v, Scope::Local)),
        Op::Global(k, v) => OpResult::Inserted(c.insert(k, v, Scope::Global)),
        Op::Begin => {
            c.begin_group();
            OpResult::Began
        }
        Op::End => OpResult::Ended(c.end_group().is_ok()),
    }
}

fn apply_model(m: &mut Model, op: Op) -> OpResult {
    match op {
        Op::Local(k, v) => OpResult::Inserted(m.insert_local(k, v)),
        Op::Global(k, v) => OpResult::Inserted(m.insert_global(k, v)),
        Op::Begin => {
            m.begin();
            OpResult::Began
        }
        Op::End => OpResult::Ended(m.end().is_ok()),
    }
}

/// Everything the public read API shows, against the model's top snapshot.
fn check_visible<T: BackingContainer<usize, V>>(
    c: &GC<T>,
    m: &Model,
    keys: &[usize],
    stats: &mut Stats,
) -> Result<(), Mismatch> {
    for k in keys {
        let got = c.get(k).copied();
        let want = m.get(k).copied();
        if got != want {
            return Err(Mismatch {
                what: "get".into(),
                info: json!({"key": k, "got": got, "model": want}),
            });
        }
    }
    if c.len() != m.len() {
        return Err(Mismatch {
            what: "len".into(),
            info: json!({"got": c.len(), "model": m.len()}),
        });
    }
    if c.is_empty() != m.is_empty() {
        return Err(Mismatch {
            what: "is_empty".into(),
            info: json!({"got": c.is_empty(), "model": m.is_empty()}),
        });
    }
    let mut got: Vec<(usize, V)> = c.iter().map(|(k, v)| (k, *v)).collect();
    got.sort_unstable();
    let want = m.visible();
    if got != want {
        return Err(Mismatch {
            what: "iter".into(),
            info: json!({"got": got, "model": want}),
        });
    }
    #[cfg(feature = "h1")]
    {
        stats.hit(C::H1Checks);
        if c.verif_num_groups() != m.depth() {
            return Err(Mismatch {
                what: "open-group-count(H1)".into(),
                info: json!({"got": c.verif_num_groups(), "model": m.depth()}),
            });
        }
    }
    let _ = stats;
    Ok(())
}

pub struct Lockstep<T: BackingContainer<usize, V>> {
    pub real: GC<T>,
    /// a container rebuilt from `iter_all()` of `real` (or of an earlier shadow) that must stay
    /// indistinguishable from it
    pub shadow: Option<GC<T>>,
    pub model: Model,
}

impl<T: BackingContainer<usize, V>> Lockstep<T> {
    pub fn new() -> Self {
        Lockstep {
            real: Default::default(),
            shadow: None,
            model: Model::new(),
        }
    }

    fn classify(&self, op: Op, stats: &mut Stats) {
        let depth = self.model.depth();
        if depth >= 6 {
            stats.hit(C::DepthGe6Ops);
            if depth == 12 {
                stats.hit(C::DepthEq12Ops);
            }
        }
        match op {
            Op::Local(k, _) => {
                if depth > 0 {
                    stats.hit(C::LocalInGroup);
                    if depth >= 2 {
                        stats.hit(C::LocalDepthGe2);
                    }
                    if self.model.get(&k).is_none() {
                        stats.hit(C::LocalNewKeyInGroup);
                    }
                }
            }
            Op::Global(k, _) => {
                if depth > 0 {
                    stats.hit(C::GlobalInGroup);
                    if self.model.shadowed(&k) {
                        stats.hit(C::GlobalPurging);
                    }
                }
            }
            Op::Begin => stats.hit(C::Begin),
            Op::End => {}
        }
    }

    /// Apply one operation to the real container(s) and to the model; compare results and the
    /// complete visible state.
    pub fn step(&mut self, op: Op, keys: &[usize], stats: &mut Stats) -> Result<(), Mismatch> {
        self.classify(op, stats);
        let before = if op == Op::End && self.model.depth() > 0 {
            Some((self.model.visible(), self.model.depth()))
        } else {
            None
        };
        let want = apply_model(&mut self.model, op);
        if let Some((vis, depth)) = before {
            let now = self.model.visible();
            stats.hit(C::EndOk);
            if now != vis {
                if now.len() < vis.len() {
                    stats.hit(C::EndDeleting);
                }
                if now.iter().any(|(k, v)| {
                    vis.iter().any(|(k2, v2)| k2 == k && v2 != v)
                }) {
                    stats.hit(C::EndRestoring);
                    if depth >= 2 {
                        stats.hit(C::EndRestoringDepthGe2);
                    }
                }
            }
        } else if op == Op::End {
            stats.hit(C::EndOnEmpty);
        }
        let got = apply_real(&mut self.real, op);
        stats.hit(C::OpsChecked);
        if got != want {
            return Err(Mismatch {
                what: match op {
                    Op::End => "end_group-result".into(),
                    _ => "insert-return-value".into(),
                },
                info: json!({"op": op.show(), "got": format!("{got:?}"), "model": format!("{want:?}")}),
            });
        }
        check_visible(&self.real, &self.model, keys, stats)?;
        if let Some(sh) = &mut self.shadow {
            stats.hit(C::ShadowOps);
            let got = apply_real(sh, op);
            if got != want {
                return Err(Mismatch {
                    what: match op {
                        Op::End => "rebuilt:end_group-result".into(),
                        _ => "rebuilt:insert-return-value".into(),
                    },
                    info: json!({"op": op.show(), "got": format!("{got:?}"), "model": format!("{want:?}")}),
                });
            }
            check_visible(sh, &self.model, keys, stats).map_err(|m| Mismatch {
                what: format!("rebuilt:{}", m.what),
                info: m.info,
            })?;
        }
        Ok(())
    }

    /// End groups until the model has none left; one more `end` must then fail everywhere.
    pub fn unwind(&mut self, keys: &[usize], stats: &mut Stats) -> Result<(), Mismatch> {
        loop {
            let depth = self.model.depth();
            stats.hit(C::UnwindSteps);
            self.step(Op::End, keys, stats)?;
            if depth == 0 {
                return Ok(());
            }
        }
    }
}

pub fn replay_of<T: BackingContainer<usize, V>>(c: &GC<T>) -> Vec<ReplayItem<usize, V>> {
    c.iter_all()
        .map(|it| match it {
            Item::BeginGroup => ReplayItem::BeginGroup,
            Item::Value((k, v)) => ReplayItem::Value(k, *v),
        })
        .collect()
}

fn show_replay(items: &[ReplayItem<usize, V>]) -> Vec<String> {
    items
        .iter()
        .map(|i| match i {
            ReplayItem::BeginGroup => "begin".to_string(),
            ReplayItem::Value(k, v) => format!("{k}={v}"),
        })
        .collect()
}

/// `iter_all` -> (a) model replay must reproduce the model's whole stack of snapshots,
/// (b) real `FromIterator` must produce a container showing the same visible state.
pub fn rebuild_check<T: BackingContainer<usize, V> + PartialEq>(
    c: &GC<T>,
    m: &Model,
    keys: &[usize],
    stats: &mut Stats,
) -> Result<GC<T>, Mismatch> {
    let items = replay_of(c);
    stats.hit(C::Rebuilds);
    stats.add(C::RebuildItems, items.len() as u64);
    if m.pending_restores() > 0 {
        stats.hit(C::RebuildsHidden);
    }
    let replayed = Model::from_replay(items.iter().cloned());
    if replayed != *m {
        return Err(Mismatch {
            what: "iter_all-replay-builds-different-snapshots".into(),
            info: json!({
                "iter_all": show_replay(&items),
                "replayed_snapshots": replayed.snapshots(),
                "model_snapshots": m.snapshots(),
            }),
        });
    }
    let rebuilt: GC<T> = items
        .iter()
        .map(|i| match i {
            ReplayItem::BeginGroup => Item::BeginGroup,
            ReplayItem::Value(k, v) => Item::Value((*k, *v)),
        })
        .collect();
    check_visible(&rebuilt, m, keys, stats).map_err(|mm| Mismatch {
        what: format!("rebuilt:{}", mm.what),
        info: json!({"iter_all": show_replay(&items), "diff": mm.info}),
    })?;
    // not required by the property, recorded only: is the rebuilt container also equal under the
    // container's own PartialEq (same undo logs)?
    if rebuilt == *c {
        stats.hit(C::RebuildStructEq);
    }
    Ok(rebuilt)
}

pub struct Failure {
    pub at: String,
    pub mismatch: Mismatch,
    pub model_snapshots: Value,
}

fn fail<T: BackingContainer<usize, V>>(at: String, ls: &Lockstep<T>, m: Mismatch) -> Failure {
    Failure {
        at,
        mismatch: m,
        model_snapshots: json!(ls.model.snapshots()),
    }
}

/// One complete small case: history, rebuild, rebuild of the rebuild + pure unwind, continuation
/// on (original, rebuilt, model), final unwind.
pub fn run_small<T: BackingContainer<usize, V> + PartialEq>(
    history: &[Op],
    continuation: &[Op],
    keys: &[usize],
    stats: &mut Stats,
) -> Result<(), Failure> {
    let mut ls: Lockstep<T> = Lockstep::new();
    for (i, op) in history.iter().enumerate() {
        if let Err(m) = ls.step(*op, keys, stats) {
            return Err(fail(format!("history[{i}]"), &ls, m));
        }
    }
    let rebuilt = match rebuild_check(&ls.real, &ls.model, keys, stats) {
        Ok(r) => r,
        Err(m) => return Err(fail("rebuild-after-history".into(), &ls, m)),
    };
    // the rebuilt container's own iter_all must describe the same state; unwind that copy alone
    let rebuilt2 = match rebuild_check(&rebuilt, &ls.model, keys, stats) {
        Ok(r) => r,
        Err(m) => {
            return Err(fail(
                "rebuild-of-rebuilt".into(),
                &ls,
                Mismatch {
                    what: format!("second-generation:{}", m.what),
                    info: m.info,
                },
            ))
        }
    };
    let mut alone: Lockstep<T> = Lockstep {
        real: rebuilt2,
        shadow: None,
        model: ls.model.clone(),
    };
    if let Err(m) = alone.unwind(keys, stats) {
        return Err(fail(
            "unwind-of-second-generation-rebuild".into(),
            &alone,
            Mismatch {
                what: format!("rebuilt-unwind:{}", m.what),
                info: m.info,
            },
        ));
    }
    ls.shadow = Some(rebuilt);
    for (i, op) in continuation.iter().enumerate() {
        if let Err(m) = ls.step(*op, keys, stats) {
            return Err(fail(format!("continuation[{i}]"), &ls, m));
        }
    }
    if let Err(m) = ls.unwind(keys, stats) {
        return Err(fail("final-unwind".into(), &ls, m));
    }
    Ok(())
}

fn report(
    obs: &mut Obs,
    kind: &str,
    history: &[Op],
    continuation: &[Op],
    r: Result<Result<(), Failure>, vcore::PanicInfo>,
) {
    match r {
        Ok(Ok(())) => {}
        Ok(Err(f)) => obs.violation(
            format!("gm/{kind}/{}", f.mismatch.what),
            json!({
                "container": kind,
                "history": show_ops(history),
                "continuation_after_rebuild": show_ops(continuation),
                "failed_at": f.at,
                "difference": f.mismatch.info,
                "model_snapshots_outermost_first": f.model_snapshots,
            }),
        ),
        Err(p) => obs.repo_panic(
            &p,
            json!({
                "container": kind,
                "history": show_ops(history),
                "continuation_after_rebuild": show_ops(continuation),
            }),
        ),
    }
}

fn run_small_both(obs: &mut Obs, history: &[Op], cont: &[Op], sh: &mut Stats, sv: &mut Stats) {
    let r = vcore::catch(|| run_small::<HashBacked>(history, cont, &SMALL_KEYS, sh));
    if !matches!(r, Ok(Ok(()))) {
        report(obs, "hashmap", history, cont, r);
    }
    let r = vcore::catch(|| run_small::<VecBacked>(history, cont, &SMALL_KEYS, sv));
    if !matches!(r, Ok(Ok(()))) {
        report(obs, "vec", history, cont, r);
    }
}

// ------------------------------------------------------------------------------------------
// phase gm_exhaustive

pub const EXH_CHUNK_DIGITS: u32 = 4;
pub const CONT_LEN: usize = 6;

pub fn exhaustive_cases(len: u32) -> u64 {
    10u64.pow(len - EXH_CHUNK_DIGITS)
}

fn nontrivial_marker(s: &Stats) -> u64 {
    s.get(C::EndRestoring) + s.get(C::EndDeleting) + s.get(C::GlobalPurging)
}

/// Case `idx` = the 10^4 histories of length `len` whose leading `len-4` letters are the decimal
/// digits of `idx`.
pub fn exhaustive_case(len: u32, idx: u64, rng: &mut Rng, obs: &mut Obs) {
    let chunk = 10u64.pow(EXH_CHUNK_DIGITS);
    let mut sh = Stats::default();
    let mut sv = Stats::default();
    let mut nontrivial = 0u64;
    let mut history: Vec<Op> = vec![Op::Begin; len as usize];
    let mut cont: Vec<Op> = vec![Op::Begin; CONT_LEN];
    let mut sampled = false;
    for low in 0..chunk {
        let h = idx * chunk + low;
        let mut x = h;
        for i in (0..len as usize).rev() {
            history[i] = small_op((x % 10) as u8);
            x /= 10;
        }
        let mut c = rng.below(1_000_000);
        for slot in cont.iter_mut() {
            *slot = small_op((c % 10) as u8);
            c /= 10;
        }
        let before = nontrivial_marker(&sh);
        run_small_both(obs, &history, &cont, &mut sh, &mut sv);
        // non-trivial: some end_group had something to roll back, or a global insert had a saved
        // value to purge (counted on the hash-backed run; the vec-backed run sees the same model)
        if nontrivial_marker(&sh) > before {
            nontrivial += 1;
        }
        if !sampled && obs.wants_sample() {
            // sample the first history of the chunk that leaves hidden values behind open groups
            let mut m = Model::new();
            for op in &history {
                apply_model(&mut m, *op);
            }
            if m.pending_restores() >= 2 {
                sampled = true;
                let mut ls: Lockstep<HashBacked> = Lockstep::new();
                let mut scratch = Stats::default();
                for op in &history {
                    let _ = ls.step(*op, &SMALL_KEYS, &mut scratch);
                }
                obs.sample(json!({
                    "history": show_ops(&history),
                    "continuation_after_rebuild": show_ops(&cont),
                    "model_snapshots_after_history_outermost_first": ls.model.snapshots(),
                    "iter_all_of_real_hashmap": show_replay(&replay_of(&ls.real)),
                    "checked": "return value, get, len, is_empty, iter, group count after each op; rebuild; continuation; unwind",
                }));
            }
        }
    }
    obs.add("gm_exhaustive_histories", chunk);
    obs.nontrivial_by_construction(nontrivial);
    sh.flush(obs, "hashmap");
    sv.flush(obs, "vec");
}

// ------------------------------------------------------------------------------------------
// phase gm_bfs: distinct model states, compactly encoded
//
// A second, independent formulation of the stack-of-snapshots rule on a packed representation:
// snapshot = 3*a + b with a, b in {0 absent, 1 first value, 2 second value} for the two keys;
// up to 30 snapshots of 4 bits each in a u128, the snapshot count in bits 120..125. `calibrate` and every BFS
// case cross-check it against `ScopedMap`.

pub const MAX_SNAPS: usize = 30;
pub type Code = u128;
const LEN_SHIFT: usize = 120;

fn c_len(code: Code) -> usize {
    ((code >> LEN_SHIFT) & 31) as usize
}
fn c_get(code: Code, i: usize) -> u8 {
    ((code >> (4 * i)) & 15) as u8
}
fn c_set(code: Code, i: usize, s: u8) -> Code {
    (code & !((15 as Code) << (4 * i))) | ((s as Code) << (4 * i))
}
fn c_with_len(code: Code, n: usize) -> Code {
    (code & !((31 as Code) << LEN_SHIFT)) | ((n as Code) << LEN_SHIFT)
}
fn snap_set(s: u8, key: u8, val: u8) -> u8 {
    if key == 0 {
        val * 3 + s % 3
    } else {
        (s / 3) * 3 + val
    }
}
pub const C_INITIAL: Code = 1 << LEN_SHIFT;

/// Successor of a packed state; `None` if the representation would overflow.
pub fn c_step(code: Code, letter: u8) -> Option<Code> {
    let n = c_len(code);
    match letter {
        0..=3 => {
            let s = snap_set(c_get(code, n - 1), letter / 2, letter % 2 + 1);
            Some(c_set(code, n - 1, s))
        }
        4..=7 => {
            let l = letter - 4;
            let mut c = code;
            for i in 0..n {
                c = c_set(c, i, snap_set(c_get(c, i), l / 2, l % 2 + 1));
            }
            Some(c)
        }
        8 => {
            if n == MAX_SNAPS {
                return None;
            }
            let c = c_set(code, n, c_get(code, n - 1));
            Some(c_with_len(c, n + 1))
        }
        _ => {
            if n == 1 {
                Some(code)
            } else {
                Some(c_with_len(c_set(code, n - 1, 0), n - 1))
            }
        }
    }
}

/// Packed form of a `ScopedMap` state over the small alphabet.
pub fn c_encode(m: &Model) -> Code {
    let snaps = m.snapshots();
    let mut code = c_with_len(0, snaps.len());
    for (i, s) in snaps.iter().enumerate() {
        let mut ab = [0u8; 2];
        for (k, v) in s {
            let ki = SMALL_KEYS.iter().position(|x| x == k).unwrap_or(0);
            let vi = SMALL_VALS.iter().position(|x| x == v).unwrap_or(0) as u8 + 1;
            ab[ki] = vi;
        }
        code = c_set(code, i, ab[0] * 3 + ab[1]);
    }
    code
}

pub struct Node {
    pub code: Code,
    pub parent: u32,
    pub letter: u8,
    pub depth: u8,
}

pub struct Bfs {
    pub nodes: Vec<Node>,
    pub per_depth: Vec<u64>,
}

impl Bfs {
    /// shortest history (as letters) leading to node `i`
    pub fn witness(&self, mut i: usize) -> Vec<u8> {
        let mut w = vec![];
        while self.nodes[i].depth > 0 {
            w.push(self.nodes[i].letter);
            i = self.nodes[i].parent as usize;
        }
        w.reverse();
        w
    }
}

/// All distinct model states reachable with at most `max_ops` operations, in BFS order.
/// Deterministic (queue order only); memoised per process because `phases()` and every case of
/// the phase need it.
pub fn bfs(max_ops: u8) -> &'static Bfs {
    static CACHE: OnceLock<Mutex<HashMap<u8, &'static Bfs>>> = OnceLock::new();
    let cache = CACHE.get_or_init(|| Mutex::new(HashMap::new()));
    let mut guard = cache.lock().unwrap_or_else(|e| e.into_inner());
    if let Some(b) = guard.get(&max_ops) {
        return b;
    }
    let mut nodes: Vec<Node> = vec![Node {
        code: C_INITIAL,
        parent: 0,
        letter: 0,
        depth: 0,
    }];
    let mut seen: HashMap<Code, u32> = HashMap::new();
    seen.insert(C_INITIAL, 0);
    let mut per_depth = vec![1u64];
    let mut head = 0usize;
    while head < nodes.len() {
        let (code, depth) = (nodes[head].code, nodes[head].depth);
        if depth < max_ops {
            for letter in 0..10u8 {
                if let Some(next) = c_step(code, letter) {
                    if let std::collections::hash_map::Entry::Vacant(e) = seen.entry(next) {
                        e.insert(nodes.len() as u32);
                        nodes.push(Node {
                            code: next,
                            parent: head as u32,
                            letter,
                            depth: depth + 1,
                        });
                        if per_depth.len() <= (depth + 1) as usize {
                            per_depth.push(0);
                        }
                        per_depth[(depth + 1) as usize] += 1;
                    }
                }
            }
        }
        head += 1;
    }
    let b: &'static Bfs = Box::leak(Box::new(Bfs { nodes, per_depth }));
    guard.insert(max_ops, b);
    b
}

pub const BFS_CHUNK: u64 = 256;

pub fn bfs_cases(max_ops: u8) -> u64 {
    (bfs(max_ops).nodes.len() as u64).div_ceil(BFS_CHUNK)
}

/// Case `idx` = states `idx*256 ..` of the BFS order: shortest history, then each of the ten
/// operations as the next step, then rebuild / continuation / unwind as in the exhaustive phase.
pub fn bfs_case(max_ops: u8, idx: u64, rng: &mut Rng, obs: &mut Obs) {
    let table = bfs(max_ops);
    let lo = (idx * BFS_CHUNK) as usize;
    let hi = ((idx + 1) * BFS_CHUNK).min(table.nodes.len() as u64) as usize;
    let mut sh = Stats::default();
    let mut sv = Stats::default();
    let mut cont: Vec<Op> = vec![Op::Begin; CONT_LEN];
    for i in lo..hi {
        let letters = table.witness(i);
        let depth = table.nodes[i].depth;
        obs.add("gm_bfs_states", 1);
        if depth as usize >= 8 {
            obs.add("gm_bfs_states_beyond_exhaustive_length", 1);
        }
        // the packed formulation and ScopedMap must agree on the state (two formulations of the
        // model; disagreement = the model is wrong, never a verdict)
        let mut m = Model::new();
        for l in &letters {
            apply_model(&mut m, small_op(*l));
        }
        if c_encode(&m) != table.nodes[i].code {
            obs.inconclusive("packed BFS model and ScopedMap disagree on a state");
            continue;
        }
        obs.nontrivial_hash(vcore::stable_hash(&("gm_bfs", table.nodes[i].code)));
        for letter in 0..10u8 {
            let mut history: Vec<Op> = letters.iter().map(|l| small_op(*l)).collect();
            history.push(small_op(letter));
            let mut c = rng.below(1_000_000);
            for slot in cont.iter_mut() {
                *slot = small_op((c % 10) as u8);
                c /= 10;
            }
            run_small_both(obs, &history, &cont, &mut sh, &mut sv);
            obs.add("gm_bfs_edges", 1);
        }
        if i == lo && obs.wants_sample() {
            obs.sample(json!({
                "bfs_index": i, "shortest_history": letters.iter().map(|l| small_op(*l).show()).collect::<Vec<_>>(),
                "model_snapshots": m.snapshots(), "then": "each of the 10 operations, rebuild, 6 further operations, unwind",
            }));
        }
    }
    sh.flush(obs, "hashmap");
    sv.flush(obs, "vec");
}

// ------------------------------------------------------------------------------------------
// phase gm_random

pub const RANDOM_KEYS: usize = 16;
pub const RANDOM_MAX_DEPTH: usize = 12;

pub struct RandomPlan {
    pub keys: Vec<usize>,
    pub ops: Vec<Op>,
    /// after which operations the container is rebuilt from `iter_all`; `true` = rebuild from
    /// the current shadow (second generation) when there is one
    pub rebuild_after: Vec<(usize, bool)>,
}

pub fn random_plan(rng: &mut Rng) -> RandomPlan {
    // 16 distinct keys out of 0..48 (the vector-backed container is indexed by key)
    let mut universe: Vec<usize> = (0..48).collect();
    rng.shuffle(&mut universe);
    let mut keys: Vec<usize> = universe[..RANDOM_KEYS].to_vec();
    keys.sort_unstable();
    let hot: Vec<usize> = (0..4).map(|_| *rng.pick(&keys)).collect();
    // weights: local, global, begin, end
    let profile: [u32; 4] = match rng.below(5) {
        0 => [40, 12, 20, 20],
        1 => [30, 8, 34, 14], // deep nesting
        2 => [25, 35, 20, 20], // global heavy
        3 => [20, 10, 35, 35], // churn
        _ => [50, 20, 18, 12],
    };
    let n = rng.range_usize(60, 400);
    let mut ops = Vec::with_capacity(n);
    let mut rebuild_after = vec![];
    let mut depth = 0usize;
    for i in 0..n {
        let mut kind = rng.weighted(&profile);
        if kind == 2 && depth == RANDOM_MAX_DEPTH {
            kind = 3;
        }
        if kind == 3 && depth == 0 && !rng.chance(1, 4) {
            kind = 2;
        }
        let key = if rng.coin() {
            *rng.pick(&hot)
        } else {
            *rng.pick(&keys)
        };
        // a value never used before in this history: a wrong read names the write it came from
        let val = (i + 1) as V;
        let op = match kind {
            0 => Op::Local(key, val),
            1 => Op::Global(key, val),
            2 => {
                depth += 1;
                Op::Begin
            }
            _ => {
                depth = depth.saturating_sub(1);
                Op::End
            }
        };
        ops.push(op);
        if rng.chance(1, 24) {
            rebuild_after.push((i, rng.coin()));
        }
    }
    RandomPlan {
        keys,
        ops,
        rebuild_after,
    }
}

fn run_random<T: BackingContainer<usize, V> + PartialEq>(
    plan: &RandomPlan,
    stats: &mut Stats,
) -> Result<(), Failure> {
    let mut ls: Lockstep<T> = Lockstep::new();
    let mut next_rebuild = 0usize;
    for (i, op) in plan.ops.iter().enumerate() {
        if let Err(m) = ls.step(*op, &plan.keys, stats) {
            return Err(fail(format!("history[{i}]"), &ls, m));
        }
        if next_rebuild < plan.rebuild_after.len() && plan.rebuild_after[next_rebuild].0 == i {
            let from_shadow = plan.rebuild_after[next_rebuild].1 && ls.shadow.is_some();
            next_rebuild += 1;
            let r = match (&ls.shadow, from_shadow) {
                (Some(sh), true) => rebuild_check(sh, &ls.model, &plan.keys, stats).map_err(|m| {
                    Mismatch {
                        what: format!("second-generation:{}", m.what),
                        info: m.info,
                    }
                }),
                _ => rebuild_check(&ls.real, &ls.model, &plan.keys, stats),
            };
            match r {
                Ok(rebuilt) => ls.shadow = Some(rebuilt),
                Err(m) => return Err(fail(format!("rebuild-after-history[{i}]"), &ls, m)),
            }
        }
    }
    match rebuild_check(&ls.real, &ls.model, &plan.keys, stats) {
        Ok(rebuilt) => {
            if ls.shadow.is_none() {
                ls.shadow = Some(rebuilt);
            }
        }
        Err(m) => return Err(fail("rebuild-at-end".into(), &ls, m)),
    }
    if let Err(m) = ls.unwind(&plan.keys, stats) {
        return Err(fail("final-unwind".into(), &ls, m));
    }
    Ok(())
}

pub fn random_case(rng: &mut Rng, obs: &mut Obs) {
    let plan = random_plan(rng);
    let mut sh = Stats::default();
    let mut sv = Stats::default();
    let r = vcore::catch(|| run_random::<HashBacked>(&plan, &mut sh));
    if !matches!(r, Ok(Ok(()))) {
        report(obs, "hashmap", &plan.ops, &[], r);
    }
    let r = vcore::catch(|| run_random::<VecBacked>(&plan, &mut sv));
    if !matches!(r, Ok(Ok(()))) {
        report(obs, "vec", &plan.ops, &[], r);
    }
    obs.add("gm_random_histories", 1);
    let max_depth = {
        let mut d = 0usize;
        let mut mx = 0usize;
        for op in &plan.ops {
            match op {
                Op::Begin => {
                    d += 1;
                    mx = mx.max(d)
                }
                Op::End => d = d.saturating_sub(1),
                _ => {}
            }
        }
        mx
    };
    obs.add(&format!("gm_random_max_depth_{:02}", max_depth), 1);
    if sh.get(C::EndRestoringDepthGe2) > 0
        && sh.get(C::GlobalPurging) > 0
        && sh.get(C::RebuildsHidden) > 0
    {
        obs.nontrivial(&plan.ops);
    }
    if obs.wants_sample() {
        obs.sample(json!({
            "keys": plan.keys, "operations": plan.ops.len(), "max_depth": max_depth,
            "first_operations": show_ops(&plan.ops[..plan.ops.len().min(24)]),
            "rebuild_points": plan.rebuild_after.iter().map(|r| r.0).collect::<Vec<_>>(),
            "restoring_ends": sh.get(C::EndRestoring), "purging_globals": sh.get(C::GlobalPurging),
        }));
    }
    sh.flush(obs, "hashmap");
    sv.flush(obs, "vec");
}

// ------------------------------------------------------------------------------------------
// calibration: the model against the tables in the repository's own tests and doc examples
// (crates/texcraft-stdext/src/collections/groupingmap.rs). The expected `iter_all` sequences are
// copied from `mod iter_all_tests`; replaying them through the model must give the state the
// model reaches on the history that the test builds.

pub fn calibrate(obs: &mut Obs) {
    use Op::*;
    use ReplayItem::{BeginGroup as B, Value as Val};
    let table: Vec<(&str, Vec<Op>, Vec<ReplayItem<usize, V>>)> = vec![
        ("empty_0", vec![], vec![]),
        ("empty_1", vec![Begin], vec![B]),
        ("empty_2", vec![Begin, Begin, Begin, End], vec![B, B]),
        (
            "single_root_assignment",
            vec![Local(1, 1), Begin, Begin],
            vec![Val(1, 1), B, B],
        ),
        (
            "single_global_assignment",
            vec![Begin, Global(1, 1), Begin],
            vec![Val(1, 1), B, B],
        ),
        (
            "overwrite_root_assignment_1",
            vec![Local(1, 1), Begin, Local(1, 2), Begin],
            vec![Val(1, 1), B, Val(1, 2), B],
        ),
        (
            "overwrite_root_assignment_2",
            vec![Local(1, 1), Begin, Local(1, 2), Begin, Local(1, 3)],
            vec![Val(1, 1), B, Val(1, 2), B, Val(1, 3)],
        ),
        (
            "single_local_assignment",
            vec![Begin, Local(1, 1), Begin],
            vec![B, Val(1, 1), B],
        ),
        (
            "overwrite_local_assignment_1",
            vec![Begin, Local(1, 1), Begin, Local(1, 2)],
            vec![B, Val(1, 1), B, Val(1, 2)],
        ),
        (
            "overwrite_local_assignment_2",
            vec![Begin, Local(1, 1), Begin, Local(1, 2), Begin, Local(1, 3)],
            vec![B, Val(1, 1), B, Val(1, 2), B, Val(1, 3)],
        ),
        // doc examples of IterAll
        (
            "doc_minimal",
            vec![Local(5, 1), Local(5, 2), Begin, Local(5, 3), Local(5, 4)],
            vec![Val(5, 2), B, Val(5, 4)],
        ),
        (
            "doc_global",
            vec![Local(5, 1), Begin, Global(5, 2)],
            vec![Val(5, 2), B],
        ),
    ];
    for (name, ops, want_items) in table {
        let mut m = Model::new();
        for op in &ops {
            apply_model(&mut m, *op);
        }
        let replayed = Model::from_replay(want_items);
        obs.count("calibration_gm_iter_all_tables");
        if replayed != m {
            obs.violation(
                format!("calibration: model disagrees with repo test table {name}"),
                json!({"model": m.snapshots(), "replayed": replayed.snapshots()}),
            );
        }
    }
    // module doc examples + unit tests: (history, key, visible value afterwards)
    let reads: Vec<(&str, Vec<Op>, usize, Option<V>)> = vec![
        (
            "doc_rollback_update",
            vec![Local(1, 10), Begin, Local(1, 11), End],
            1,
            Some(10),
        ),
        (
            "doc_rollback_insert",
            vec![Begin, Local(2, 20), End],
            2,
            None,
        ),
        (
            "doc_global",
            vec![Local(1, 10), Begin, Global(1, 11), End],
            1,
            Some(11),
        ),
        (
            "insert_after_nested_insert",
            vec![Begin, Local(3, 5), End, Local(3, 4)],
            3,
            Some(4),
        ),
        (
            "insert_global_after_no_insert",
            vec![Begin, Global(3, 5), End],
            3,
            Some(5),
        ),
    ];
    for (name, ops, key, want) in reads {
        let mut m = Model::new();
        for op in &ops {
            apply_model(&mut m, *op);
        }
        obs.count("calibration_gm_doc_examples");
        if m.get(&key).copied() != want {
            obs.violation(
                format!("calibration: model disagrees with repo example {name}"),
                json!({"model": m.get(&key), "want": want}),
            );
        }
    }
    let mut m = Model::new();
    obs.count("calibration_gm_doc_examples");
    if m.end().is_ok() {
        obs.violation("calibration: model ends a group that does not exist", json!({}));
    }
    // packed formulation against ScopedMap on random walks over the small alphabet
    let mut rng = Rng::new(20);
    for _ in 0..2000 {
        let mut m = Model::new();
        let mut code = C_INITIAL;
        for _ in 0..13 {
            let letter = rng.below(10) as u8;
            apply_model(&mut m, small_op(letter));
            code = match c_step(code, letter) {
                Some(c) => c,
                None => break,
            };
            obs.count("calibration_gm_packed_model_steps");
            if c_encode(&m) != code {
                obs.violation("calibration: packed model disagrees with ScopedMap", json!({}));
                return;
            }
        }
    }
}
