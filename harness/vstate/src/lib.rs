//! Harness-owned TexlangState
