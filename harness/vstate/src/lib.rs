//! vstate: a harness-owned `TexlangState` with every component of the Texlang standard library
//! (same register sizes as `StdLibState`) plus texlang-font with a mock font format, an in-memory
//! file system, a mock terminal, a step budget and an event log.
//!
//! Everything here observes at public extension points of texlang (the `TexlangState` hooks and
//! `vm::Handlers`); the only guarded repo hook used is `VM::verif_snapshot` (H2).

use std::cell::{Cell, RefCell};
use std::collections::HashMap;
use std::rc::Rc;

use texlang::command;
use texlang::error;
use texlang::prelude as txl;
use texlang::token;
use texlang::traits::*;
use texlang::types;
use texlang::types::CatCode;
use texlang::vm;
use texlang::vm::implement_has_component;
use texlang_common::{InMemoryFileSystem, MockTerminalIn};
use texlang_font as tfont;
use texlang_stdlib::*;

pub use texlang;
pub use texlang_common;
pub use texlang_font;
pub use texlang_stdlib;

/// Mock font format: a font file is any non-empty byte string, its first byte is its identity.
#[derive(Debug, PartialEq, Eq, Clone)]
pub struct MockFont(pub u8);
#[derive(Debug)]
pub struct MockFontError;
impl std::error::Error for MockFontError {}
impl std::fmt::Display for MockFontError {
    fn fmt(&self, f: &mut std::fmt::Formatter<'_>) -> std::fmt::Result {
        write!(f, "invalid font file")
    }
}
impl common::FontFormat for MockFont {
    const DEFAULT_FILE_EXTENSION: &'static str = "mock";
    type Error = MockFontError;
    fn parse(b: &[u8]) -> Result<Self, Self::Error> {
        match b.first().copied() {
            None => Err(MockFontError {}),
            Some(u) => Ok(MockFont(u)),
        }
    }
}

#[derive(Default)]
pub struct FontRecorder;
impl tfont::FontRepo for FontRecorder {
    type Format = MockFont;
    fn add_font(&mut self, _id: types::Font, _font: Self::Format) {}
}

/// What the monitors record while the VM runs.
#[derive(Debug, Clone, PartialEq, Eq)]
pub enum Event {
    /// A macro was expanded: name of the calling token, arguments and expansion rendered as text.
    Macro {
        name: String,
        args: Vec<String>,
        expansion: String,
    },
    /// `enable_font_hook(font)`
    EnableFont(u32),
    /// `recoverable_error_hook` was called (title of the error).
    Recovered(String),
    /// A `\vprobe` was executed (index into `Mon::probes`).
    Probe(usize),
}

/// Monitor-side state living inside the VM state (never serialised).
pub struct Mon {
    pub steps: Cell<u64>,
    pub budget: Cell<u64>,
    pub out: String,
    pub events: RefCell<Vec<Event>>,
    pub record_macros: bool,
    pub recovered: Cell<u64>,
    /// Snapshots taken by `\vprobe` (property specific, produced by `probe_fn`).
    pub probes: Vec<serde_json::Value>,
    pub probe_fn: Option<fn(&vm::VM<VState>) -> serde_json::Value>,
    pub call_tracing_hook: bool,
}

impl Default for Mon {
    fn default() -> Self {
        Mon {
            steps: Cell::new(0),
            budget: Cell::new(u64::MAX),
            out: String::new(),
            events: RefCell::new(vec![]),
            record_macros: false,
            recovered: Cell::new(0),
            probes: vec![],
            probe_fn: None,
            call_tracing_hook: false,
        }
    }
}

impl Mon {
    #[inline]
    pub fn step(&self) {
        let s = self.steps.get() + 1;
        self.steps.set(s);
        if s > self.budget.get() {
            // make sure a second panic while unwinding cannot happen
            self.budget.set(u64::MAX);
            std::panic::panic_any(vcore::BudgetExceeded);
        }
    }
}

/// A state struct compatible with every primitive of the standard library and of texlang-font.
#[derive(Default, serde::Serialize, serde::Deserialize)]
pub struct VState {
    pub alloc: alloc::Component,
    pub codes_cat_code: codes::Component<CatCode>,
    pub codes_math_code: codes::Component<types::MathCode>,
    pub conditional: conditional::Component,
    pub end_line_char: endlinechar::Component,
    pub error_mode: errormode::Component,
    pub input: input::Component<16>,
    pub job: job::Component,
    pub prefix: prefix::Component,
    pub registers_i32: registers::Component<i32, 32768>,
    pub registers_scaled: registers::Component<common::Scaled, 32768>,
    pub registers_glue: registers::Component<common::Glue, 32768>,
    pub registers_token_list: registers::Component<Vec<token::Token>, 256>,
    pub repl: repl::Component,
    pub script: script::Component,
    pub time: time::Component,
    pub tracing_macros: tracingmacros::Component,
    pub font: tfont::FontComponent,
    #[serde(skip)]
    pub script_font: registers::Component<types::Font, 16, tfont::ScriptFontMarker>,
    #[serde(skip)]
    pub script_script_font: registers::Component<types::Font, 16, tfont::ScriptScriptFontMarker>,
    #[serde(skip)]
    pub text_font: registers::Component<types::Font, 16, tfont::TextFontMarker>,
    #[serde(skip)]
    pub font_repo: FontRecorder,
    #[serde(skip)]
    pub file_system: FsHandle,
    #[serde(skip)]
    pub mon: Mon,
}

pub struct FsHandle(pub Rc<RefCell<InMemoryFileSystem>>);
impl Default for FsHandle {
    fn default() -> Self {
        FsHandle(Rc::new(RefCell::new(InMemoryFileSystem::default())))
    }
}

impl TexlangState for VState {
    #[inline]
    fn cat_code(&self, c: char) -> CatCode {
        self.mon.step();
        codes::cat_code(self, c)
    }

    #[inline]
    fn end_line_char(&self) -> Option<char> {
        endlinechar::end_line_char(self)
    }

    fn post_macro_expansion_hook(
        token: token::Token,
        input: &vm::ExpansionInput<Self>,
        tex_macro: &texlang::texmacro::Macro,
        arguments: &[&[token::Token]],
        reversed_expansion: &[token::Token],
    ) {
        let state = input.state();
        state.mon.step();
        if state.mon.record_macros {
            let interner = input.vm().cs_name_interner();
            let name = tokens_to_string(&[token], interner);
            let args = arguments
                .iter()
                .map(|a| tokens_to_string(a, interner))
                .collect();
            let exp: Vec<token::Token> = reversed_expansion.iter().rev().copied().collect();
            state.mon.events.borrow_mut().push(Event::Macro {
                name,
                args,
                expansion: tokens_to_string(&exp, interner),
            });
        }
        if state.mon.call_tracing_hook {
            tracingmacros::hook(token, input, tex_macro, arguments, reversed_expansion)
        }
    }

    #[inline]
    fn expansion_override_hook(
        token: token::Token,
        input: &mut vm::ExpansionInput<Self>,
        tag: Option<command::Tag>,
    ) -> txl::Result<Option<token::Token>> {
        input.state().mon.step();
        expansion::noexpand_hook(token, input, tag)
    }

    #[inline]
    fn variable_assignment_scope_hook(
        state: &mut Self,
    ) -> texcraft_stdext::collections::groupingmap::Scope {
        state.mon.step();
        prefix::variable_assignment_scope_hook(state)
    }

    fn recoverable_error_hook(
        &self,
        recoverable_error: error::TracedTexError,
    ) -> Result<(), Box<dyn error::TexError>> {
        self.mon.step();
        let title = recoverable_error.error.title();
        let r = errormode::recoverable_error_hook(self, recoverable_error);
        if r.is_ok() {
            self.mon.recovered.set(self.mon.recovered.get() + 1);
            self.mon.events.borrow_mut().push(Event::Recovered(title));
        }
        r
    }

    fn enable_font_hook(&mut self, font: types::Font) {
        self.mon.events.borrow_mut().push(Event::EnableFont(font.0 as u32));
    }

    fn is_current_font_command(&self, tag: command::Tag) -> bool {
        tfont::FontComponent::is_current_font_command(self, tag)
    }
}

impl the::TheCompatible for VState {
    fn get_command_ref_for_font(&self, font: types::Font) -> Option<token::CommandRef> {
        tfont::FontComponent::get_command_ref_for_font(self, font)
    }
}

implement_has_component![VState{
    alloc: alloc::Component,
    codes_cat_code: codes::Component<CatCode>,
    codes_math_code: codes::Component<types::MathCode>,
    conditional: conditional::Component,
    end_line_char: endlinechar::Component,
    error_mode: errormode::Component,
    input: input::Component<16>,
    job: job::Component,
    prefix: prefix::Component,
    registers_i32: registers::Component<i32, 32768>,
    registers_scaled: registers::Component<common::Scaled, 32768>,
    registers_glue: registers::Component<common::Glue, 32768>,
    registers_token_list: registers::Component<Vec<token::Token>, 256>,
    repl: repl::Component,
    script: script::Component,
    time: time::Component,
    tracing_macros: tracingmacros::Component,
    font: tfont::FontComponent,
    script_font: registers::Component<types::Font, 16, tfont::ScriptFontMarker>,
    script_script_font: registers::Component<types::Font, 16, tfont::ScriptScriptFontMarker>,
    text_font: registers::Component<types::Font, 16, tfont::TextFontMarker>,
}];

impl tfont::HasFontRepo for VState {
    type FontRepo = FontRecorder;
    fn font_repo_mut(&mut self) -> &mut Self::FontRepo {
        &mut self.font_repo
    }
}

impl texlang_common::HasFileSystem for VState {
    fn file_system(&self) -> Rc<RefCell<dyn texlang_common::FileSystem>> {
        self.file_system.0.clone()
    }
}

/// Output of recovered errors in scroll/nonstop mode goes nowhere (not to the real stdout).
impl texlang_common::HasLogging for VState {
    fn terminal_out(&self) -> Rc<RefCell<dyn std::io::Write>> {
        Rc::new(RefCell::new(std::io::sink()))
    }
}

impl texlang_common::HasTerminalIn for VState {
    fn terminal_in(&self) -> Rc<RefCell<dyn texlang_common::TerminalIn>> {
        self.error_mode.terminal_in()
    }
}

/// The standard library's built-ins plus the font primitives plus `\vprobe`, `\par`, `\newline`.
pub fn built_ins() -> HashMap<&'static str, command::BuiltIn<VState>> {
    let mut m = texlang_stdlib::built_in_commands::<VState>();
    m.insert("font", tfont::get_font());
    m.insert("fontname", tfont::get_fontname());
    m.insert("nullfont", tfont::get_nullfont());
    m.insert("scriptfont", tfont::get_scriptfont());
    m.insert("scriptscriptfont", tfont::get_scriptscriptfont());
    m.insert("textfont", tfont::get_textfont());
    m.insert("vprobe", command::BuiltIn::new_execution(vprobe_fn));
    // \sleep really sleeps: keep it out of generated programs' reach
    m.remove("sleep");
    m
}

/// Same, with the simple (reference) implementation of `\expandafter`.
pub fn built_ins_simple_expandafter() -> HashMap<&'static str, command::BuiltIn<VState>> {
    let mut m = built_ins();
    m.insert("expandafter", expansion::get_expandafter_simple());
    m
}

fn vprobe_fn(_: token::Token, input: &mut vm::ExecutionInput<VState>) -> txl::Result<()> {
    let f = input.state().mon.probe_fn;
    if let Some(f) = f {
        let v = f(input.vm());
        let mon = &mut input.state_mut().mon;
        mon.probes.push(v);
        let n = mon.probes.len() - 1;
        mon.events.borrow_mut().push(Event::Probe(n));
    }
    Ok(())
}

/// `Handlers` that write delivered tokens to `mon.out`: characters as themselves, unexpanded
/// expansion commands as `\name ` (active characters as the character).
pub struct VHandlers;

impl vm::Handlers<VState> for VHandlers {
    fn character_handler(
        input: &mut vm::ExecutionInput<VState>,
        _token: token::Token,
        c: char,
    ) -> txl::Result<()> {
        let mon = &mut input.state_mut().mon;
        mon.step();
        mon.out.push(c);
        Ok(())
    }

    fn unexpanded_expansion_command(
        input: &mut vm::ExecutionInput<VState>,
        token: token::Token,
    ) -> txl::Result<()> {
        let s = tokens_to_string(&[token], input.vm().cs_name_interner());
        let mon = &mut input.state_mut().mon;
        mon.step();
        mon.out.push_str(&s);
        Ok(())
    }
}

/// Render tokens unambiguously: `\name ` for control sequences, the character otherwise.
pub fn tokens_to_string(tokens: &[token::Token], interner: &token::CsNameInterner) -> String {
    let mut s = String::new();
    for t in tokens {
        match t.value() {
            token::Value::CommandRef(token::CommandRef::ControlSequence(name)) => {
                s.push('\\');
                s.push_str(interner.resolve(name).unwrap_or("?unresolved?"));
                s.push(' ');
            }
            token::Value::CommandRef(token::CommandRef::ActiveCharacter(c)) => s.push(c),
            v => {
                if let Some(c) = v.char() {
                    s.push(c)
                }
            }
        }
    }
    s
}

/// Font files available in every harness VM: `a.mock` .. `d.mock` (+ an invalid empty one).
pub const FONT_FILES: &[(&str, u8)] = &[("a.mock", 1), ("b.mock", 2), ("c.mock", 3), ("d.mock", 4)];

pub struct VmOptions {
    pub simple_expandafter: bool,
    pub budget: u64,
    pub record_macros: bool,
    pub files: Vec<(String, String)>,
    pub terminal_lines: Vec<String>,
}

impl Default for VmOptions {
    fn default() -> Self {
        VmOptions {
            simple_expandafter: false,
            budget: 200_000,
            record_macros: false,
            files: vec![],
            terminal_lines: vec![],
        }
    }
}

pub const WORKDIR: &str = "/vwork";

/// Attach everything that is not part of the serialised state: file system, terminal, font
/// prefix registration, monitor options. Used for fresh and for deserialised VMs alike.
pub fn attach(vm: &mut vm::VM<VState>, opts: &VmOptions) {
    vm.working_directory = Some(std::path::PathBuf::from(WORKDIR));
    let mut fs = InMemoryFileSystem::new(std::path::Path::new(WORKDIR));
    for (name, id) in FONT_FILES {
        fs.add_bytes_file(name, &[*id]);
    }
    fs.add_bytes_file("invalid.mock", &[]);
    for (name, content) in &opts.files {
        fs.add_string_file(name, content);
    }
    vm.state.file_system = FsHandle(Rc::new(RefCell::new(fs)));
    let mut term = MockTerminalIn::default();
    for l in &opts.terminal_lines {
        term.add_line(l.clone());
    }
    vm.state
        .error_mode
        .set_default_terminal(Rc::new(RefCell::new(term)));
    vm.state.mon.budget.set(opts.budget);
    vm.state.mon.record_macros = opts.record_macros;
    // `\global\font` is legal TeX; the tag registry of the prefix component is not serialised,
    // so (like an engine built on texlang would) register it on every attach.
    if let Some(cs) = vm.cs_name_interner().get("font") {
        if let Some(tag) = vm
            .commands_map
            .get_tag(&token::CommandRef::ControlSequence(cs))
        {
            vm.state.prefix.register_globally_prefixable_command(tag);
        }
    }
}

pub fn new_vm(opts: &VmOptions) -> Box<vm::VM<VState>> {
    let built = if opts.simple_expandafter {
        built_ins_simple_expandafter()
    } else {
        built_ins()
    };
    let mut vm = Box::new(vm::VM::<VState>::new_with_built_in_commands(built));
    tfont::FontComponent::initialize(&mut vm);
    attach(&mut vm, opts);
    vm
}

/// Outcome of one `VM::run`.
#[derive(Debug, Clone)]
pub enum Outcome {
    Ok,
    /// Fatal error: (title, rendered text, kind has a source location)
    Err {
        title: String,
        rendered: String,
    },
}

impl Outcome {
    pub fn is_ok(&self) -> bool {
        matches!(self, Outcome::Ok)
    }
    pub fn err_title(&self) -> Option<&str> {
        match self {
            Outcome::Ok => None,
            Outcome::Err { title, .. } => Some(title),
        }
    }
}

/// Push `source` and run to completion with `VHandlers`. Panics propagate (use `vcore::catch`).
pub fn run(vm: &mut vm::VM<VState>, name: &str, source: &str) -> Outcome {
    if vm.push_source(name.to_string(), source.to_string()).is_err() {
        return Outcome::Err {
            title: "push_source failed".into(),
            rendered: String::new(),
        };
    }
    match vm.run::<VHandlers>() {
        Ok(()) => Outcome::Ok,
        Err(e) => {
            let title = e.error.title();
            let rendered = format!("{e}");
            Outcome::Err { title, rendered }
        }
    }
}

pub fn take_out(vm: &mut vm::VM<VState>) -> String {
    std::mem::take(&mut vm.state.mon.out)
}

pub fn take_events(vm: &mut vm::VM<VState>) -> Vec<Event> {
    std::mem::take(&mut *vm.state.mon.events.borrow_mut())
}

/// Convenience: fresh VM, run one program, return (outcome, output).
pub fn run_program(opts: &VmOptions, source: &str) -> (Outcome, String, Box<vm::VM<VState>>) {
    let mut vm = new_vm(opts);
    let o = run(&mut vm, "input.tex", source);
    let out = take_out(&mut vm);
    (o, out, vm)
}

#[derive(Clone, Copy, Debug, PartialEq, Eq)]
pub enum Format {
    Json,
    MessagePack,
    Bincode,
}

/// Serialise and deserialise a VM (the checkpoint of C08), re-attaching the non-serialised parts.
pub fn checkpoint(
    vm: &vm::VM<VState>,
    format: Format,
    opts: &VmOptions,
) -> Result<Box<vm::VM<VState>>, String> {
    let built = if opts.simple_expandafter {
        built_ins_simple_expandafter()
    } else {
        built_ins()
    };
    let mut new_vm: Box<vm::VM<VState>> = match format {
        Format::Json => {
            let bytes = serde_json::to_vec(vm).map_err(|e| format!("json serialise: {e}"))?;
            let mut d = serde_json::Deserializer::from_slice(&bytes);
            Box::new(
                vm::VM::<VState>::deserialize_with_built_in_commands(&mut d, built)
                    .map_err(|e| format!("json deserialise: {e}"))?,
            )
        }
        Format::MessagePack => {
            let bytes =
                rmp_serde::encode::to_vec(vm).map_err(|e| format!("msgpack serialise: {e}"))?;
            let mut d = rmp_serde::decode::Deserializer::from_read_ref(&bytes);
            Box::new(
                vm::VM::<VState>::deserialize_with_built_in_commands(&mut d, built)
                    .map_err(|e| format!("msgpack deserialise: {e}"))?,
            )
        }
        Format::Bincode => {
            let bytes = bincode::serde::encode_to_vec(vm, bincode::config::standard())
                .map_err(|e| format!("bincode serialise: {e}"))?;
            let d: Box<vm::serde::DeserializedVM<VState>> =
                bincode::serde::decode_from_slice(&bytes, bincode::config::standard())
                    .map_err(|e| format!("bincode deserialise: {e}"))?
                    .0;
            Box::new(vm::serde::finish_deserialization(d, built))
        }
    };
    attach(&mut new_vm, opts);
    // carry over the monitor's own bookkeeping
    new_vm.state.mon.probe_fn = vm.state.mon.probe_fn;
    new_vm.state.mon.call_tracing_hook = vm.state.mon.call_tracing_hook;
    Ok(new_vm)
}
