//! vrun: run a TeX snippet in the harness VM and print what the monitors would see.
//! usage: vrun [--simple] [--macros] [--file name=content]... [--checkpoint json|mp|bincode] -- 'P1' ['P2' ...]
use vstate::*;
fn main() {
    let mut opts = VmOptions::default();
    let mut progs: Vec<String> = vec![];
    let mut fmt: Option<Format> = None;
    let mut args = std::env::args().skip(1);
    let mut rest = false;
    while let Some(a) = args.next() {
        if rest {
            progs.push(a);
            continue;
        }
        match a.as_str() {
            "--simple" => opts.simple_expandafter = true,
            "--macros" => opts.record_macros = true,
            "--file" => {
                let kv = args.next().unwrap();
                let (k, v) = kv.split_once('=').unwrap();
                opts.files.push((k.to_string(), v.replace("<NL>", "\n")));
            }
            "--term" => opts.terminal_lines.push(args.next().unwrap()),
            "--checkpoint" => {
                fmt = Some(match args.next().unwrap().as_str() {
                    "json" => Format::Json,
                    "mp" => Format::MessagePack,
                    _ => Format::Bincode,
                })
            }
            "--" => rest = true,
            _ => progs.push(a),
        }
    }
    let mut vm = new_vm(&opts);
    for (i, p) in progs.iter().enumerate() {
        let p = p.replace("<NL>", "\n");
        let r = vcore::catch(|| run(&mut vm, &format!("p{i}.tex"), &p));
        match r {
            Ok(o) => println!("outcome: {o:?}"),
            Err(e) => println!("PANIC: {e:?}\nsignature: {}", e.signature()),
        }
        println!("out: {:?}", take_out(&mut vm));
        println!("events: {:?}", take_events(&mut vm));
        println!("snapshot: {:?}", vm.verif_snapshot());
        if let (Some(f), true) = (fmt, i + 1 < progs.len()) {
            match vcore::catch(|| checkpoint(&vm, f, &opts)) {
                Ok(Ok(v)) => {
                    vm = v;
                    println!("-- checkpointed ({f:?})");
                }
                Ok(Err(e)) => println!("checkpoint error: {e}"),
                Err(e) => println!("checkpoint PANIC: {e:?}"),
            }
        }
    }
}
