//! C20 under Miri (run by /verif/stages/C20.sh, `cargo +nightly miri run --bin c20 -- <mode>`).
//!
//!   tags        2, 3 and 4 threads behind a barrier create a few tags each and read one shared
//!               StaticTag; all tags must be pairwise distinct, the static tag single-valued. Prints
//!               one `INTERLEAVING` line per round (thread ids in tag order) so the stage can count
//!               the distinct schedules Miri's seeded scheduler produced. Exit 3 = property broken.
//!   containers [ops]  a few hundred operations on GroupingHashMap / GroupingVec / Interner (all-collide
//!               hasher) / Matcher with inline checks - here Miri is the oracle (UB in the code
//!               reached), the functional comparison proper lives in harness/c20.
//!
//! Any Miri diagnostic (data race, UB, deadlock) aborts the run with Miri's own error exit.

use std::collections::{BTreeMap, HashSet};
use std::sync::Barrier;
use texcraft_stdext::algorithms::substringsearch::Matcher;
use texcraft_stdext::collections::groupingmap::{GroupingHashMap, GroupingVec, Item, Scope};
use texcraft_stdext::collections::interner::Interner;
use texcraft_stdext::collections::nevec::Nevec;
use texlang::command::{StaticTag, Tag};

fn tags_round(t: usize, n: usize) -> bool {
    let barrier = Barrier::new(t);
    let shared = StaticTag::new();
    let mut created: Vec<(Tag, usize)> = vec![];
    let mut statics: Vec<Tag> = vec![];
    std::thread::scope(|scope| {
        let hs: Vec<_> = (0..t)
            .map(|id| {
                let barrier = &barrier;
                let shared = &shared;
                scope.spawn(move || {
                    barrier.wait();
                    let s1 = shared.get();
                    let mine: Vec<Tag> = (0..n).map(|_| Tag::new()).collect();
                    let s2 = shared.get();
                    (id, mine, s1, s2)
                })
            })
            .collect();
        for h in hs {
            let (id, mine, s1, s2) = h.join().expect("tag thread panicked");
            created.extend(mine.into_iter().map(|tag| (tag, id)));
            statics.push(s1);
            statics.push(s2);
        }
    });
    created.sort();
    let owners: Vec<String> = created.iter().map(|p| p.1.to_string()).collect();
    println!("INTERLEAVING t={t} n={n} {}", owners.join(""));
    let mut ok = true;
    if created.windows(2).any(|w| w[0].0 == w[1].0) {
        println!("DUPLICATE-TAG t={t} n={n} tags={:?}", created);
        ok = false;
    }
    if created.len() != t * n {
        println!("MISSING-TAGS t={t} n={n}");
        ok = false;
    }
    let distinct_static: HashSet<Tag> = statics.iter().copied().collect();
    if distinct_static.len() != 1 {
        println!("STATIC-TAG-SEVERAL-VALUES t={t} values={:?}", distinct_static);
        ok = false;
    }
    if created.iter().any(|p| distinct_static.contains(&p.0)) {
        println!("STATIC-TAG-EQUALS-FRESH-TAG t={t}");
        ok = false;
    }
    ok
}

fn tags() -> bool {
    let mut ok = true;
    for (t, n) in [(2usize, 6usize), (3, 5), (4, 4)] {
        ok &= tags_round(t, n);
    }
    println!("TAGS-CREATED {}", 2 * 6 + 3 * 5 + 4 * 4);
    ok
}

// ---------------------------------------------------------------------------------------------

struct Lcg(u64);
impl Lcg {
    fn next(&mut self, n: u64) -> u64 {
        self.0 = self.0.wrapping_mul(6364136223846793005).wrapping_add(1442695040888963407);
        (self.0 >> 33) % n
    }
}

#[derive(Default)]
struct ConstHasher;
impl std::hash::Hasher for ConstHasher {
    fn finish(&self) -> u64 {
        12
    }
    fn write(&mut self, _: &[u8]) {}
}

fn containers(nops: u32) -> bool {
    let mut ok = true;
    let mut rng = Lcg(20);
    // grouping containers against a stack of snapshots
    let mut hm: GroupingHashMap<usize, u32> = Default::default();
    let mut gv: GroupingVec<u32> = Default::default();
    let mut model: Vec<BTreeMap<usize, u32>> = vec![BTreeMap::new()];
    let mut ops = 0u32;
    for i in 0..nops {
        let k = rng.next(6) as usize * 2;
        match rng.next(10) {
            0..=3 => {
                hm.insert(k, i, Scope::Local);
                gv.insert(k, i, Scope::Local);
                model.last_mut().unwrap().insert(k, i);
            }
            4..=5 => {
                hm.insert(k, i, Scope::Global);
                gv.insert(k, i, Scope::Global);
                for m in &mut model {
                    m.insert(k, i);
                }
            }
            6..=7 => {
                if model.len() < 6 {
                    hm.begin_group();
                    gv.begin_group();
                    let top = model.last().unwrap().clone();
                    model.push(top);
                }
            }
            _ => {
                let want_ok = model.len() > 1;
                if want_ok {
                    model.pop();
                }
                if hm.end_group().is_ok() != want_ok || gv.end_group().is_ok() != want_ok {
                    println!("CONTAINERS end_group result differs at op {i}");
                    ok = false;
                }
            }
        }
        ops += 1;
        let want: Vec<(usize, u32)> = model.last().unwrap().iter().map(|(k, v)| (*k, *v)).collect();
        let mut a: Vec<(usize, u32)> = hm.iter().map(|(k, v)| (k, *v)).collect();
        a.sort();
        let b: Vec<(usize, u32)> = gv.iter().map(|(k, v)| (k, *v)).collect();
        if a != want || b != want || hm.len() != want.len() || gv.len() != want.len() {
            println!("CONTAINERS visible state differs at op {i}");
            ok = false;
        }
        if i % 40 == 39 {
            // iter_all -> FromIterator rebuild, unwound completely
            let items: Vec<Item<(usize, u32)>> = hm
                .iter_all()
                .map(Item::adapt_map(|(k, v): (usize, &u32)| (k, *v)))
                .collect();
            let mut rebuilt: GroupingHashMap<usize, u32> = items.into_iter().collect();
            let items: Vec<Item<(usize, u32)>> = gv
                .iter_all()
                .map(Item::adapt_map(|(k, v): (usize, &u32)| (k, *v)))
                .collect();
            let mut rebuilt_v: GroupingVec<u32> = items.into_iter().collect();
            for level in (0..model.len()).rev() {
                let want: Vec<(usize, u32)> = model[level].iter().map(|(k, v)| (*k, *v)).collect();
                let mut a: Vec<(usize, u32)> = rebuilt.iter().map(|(k, v)| (k, *v)).collect();
                a.sort();
                let b: Vec<(usize, u32)> = rebuilt_v.iter().map(|(k, v)| (k, *v)).collect();
                if a != want || b != want {
                    println!("CONTAINERS rebuilt container differs at op {i} level {level}");
                    ok = false;
                }
                let r1 = rebuilt.end_group().is_ok();
                let r2 = rebuilt_v.end_group().is_ok();
                if r1 != (level > 0) || r2 != (level > 0) {
                    println!("CONTAINERS rebuilt container has wrong depth at op {i}");
                    ok = false;
                }
            }
        }
    }
    // interner, all hashes collide
    let mut interner: Interner<std::num::NonZeroU32, std::hash::BuildHasherDefault<ConstHasher>> =
        Default::default();
    let pool = ["", "a", "b", "ab", "ba", "aba", "é", "éa", "aé", "λλ", "x", "xy"];
    let mut seen: Vec<(String, std::num::NonZeroU32)> = vec![];
    for _ in 0..(nops / 3).max(20) {
        let s = pool[rng.next(pool.len() as u64) as usize];
        let k = interner.get_or_intern(s);
        ops += 1;
        match seen.iter().find(|p| p.0 == s) {
            Some(p) => {
                if p.1 != k {
                    println!("CONTAINERS interner: equal strings, different keys");
                    ok = false;
                }
            }
            None => {
                if seen.iter().any(|p| p.1 == k) {
                    println!("CONTAINERS interner: distinct strings share a key");
                    ok = false;
                }
                seen.push((s.to_string(), k));
            }
        }
        for p in &seen {
            if interner.resolve(p.1) != Some(p.0.as_str()) {
                println!("CONTAINERS interner: resolve differs");
                ok = false;
            }
        }
    }
    // matcher
    let pattern = [0u8, 1, 0, 0, 1, 0];
    let matcher = Matcher::new(Nevec::new_with_tail(pattern[0], pattern[1..].to_vec()));
    let text: Vec<u8> = (0..(nops / 2).max(40)).map(|_| rng.next(2) as u8).collect();
    let mut search = matcher.start();
    for i in 0..text.len() {
        let got = search.next(&text[i]);
        let want = i + 1 >= pattern.len() && text[i + 1 - pattern.len()..=i] == pattern;
        ops += 1;
        if got != want {
            println!("CONTAINERS matcher differs at {i}");
            ok = false;
        }
    }
    println!("CONTAINER-OPS {ops}");
    ok
}

fn main() {
    let mode = std::env::args().nth(1).unwrap_or_else(|| "tags".into());
    let ok = match mode.as_str() {
        "tags" => tags(),
        "containers" => containers(
            std::env::args().nth(2).and_then(|s| s.parse().ok()).unwrap_or(260),
        ),
        _ => {
            eprintln!("usage: c20 tags|containers [ops]");
            std::process::exit(2)
        }
    };
    if !ok {
        println!("PROPERTY-BROKEN");
        std::process::exit(3);
    }
    println!("DONE {mode}");
}
