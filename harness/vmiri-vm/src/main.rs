//! Miri workload for the two `&mut VM<S>` -> `&mut ExpansionInput<S>` / `ExecutionInput<S>` pointer
//! casts (vm/streams.rs) that every VM run goes through, and for the lexer's in-place byte write.
//! A small-state VM (256 registers: `VM::<StdLibState>::new()` alone costs 17 s under Miri) runs
//! generated programs drawn from the same grammar families as C01/C02/C07/C19; output is compared
//! with a tiny expectation where the generator knows it (Miri's own UB detection is the oracle).
//!
//! usage: vmiri-vm <first> <count>     programs first..first+count (deterministic per index)
use std::collections::HashMap;
use texlang::command;
use texlang::traits::*;
use texlang::types::CatCode;
use texlang::vm::implement_has_component;
use texlang::*;
use texlang_stdlib::*;

#[derive(Default)]
struct S {
    codes_cat_code: codes::Component<CatCode>,
    conditional: conditional::Component,
    end_line_char: endlinechar::Component,
    prefix: prefix::Component,
    registers_i32: registers::Component<i32, 256>,
    registers_scaled: registers::Component<common::Scaled, 256>,
    registers_glue: registers::Component<common::Glue, 256>,
    registers_token_list: registers::Component<Vec<token::Token>, 256>,
    out: String,
    recovered: std::cell::Cell<u32>,
    /// logical step budget: generated programs may loop (\def\a{\a}\a); they are cut off and
    /// not counted, as in the native monitors
    steps: std::cell::Cell<u32>,
}

struct Budget;
const MAX_STEPS: u32 = 4000;

impl S {
    fn step(&self) {
        let n = self.steps.get() + 1;
        self.steps.set(n);
        if n > MAX_STEPS {
            self.steps.set(0);
            std::panic::panic_any(Budget);
        }
    }
}

impl TexlangState for S {
    fn cat_code(&self, c: char) -> CatCode {
        self.step();
        codes::cat_code(self, c)
    }
    fn post_macro_expansion_hook(
        _token: token::Token,
        input: &vm::ExpansionInput<Self>,
        _tex_macro: &texlang::texmacro::Macro,
        _arguments: &[&[token::Token]],
        _reversed_expansion: &[token::Token],
    ) {
        input.state().step();
    }
    fn end_line_char(&self) -> Option<char> {
        endlinechar::end_line_char(self)
    }
    fn expansion_override_hook(
        token: token::Token,
        input: &mut vm::ExpansionInput<Self>,
        tag: Option<command::Tag>,
    ) -> texlang::prelude::Result<Option<token::Token>> {
        expansion::noexpand_hook(token, input, tag)
    }
    fn variable_assignment_scope_hook(
        state: &mut Self,
    ) -> texcraft_stdext::collections::groupingmap::Scope {
        prefix::variable_assignment_scope_hook(state)
    }
    fn recoverable_error_hook(
        &self,
        _e: error::TracedTexError,
    ) -> Result<(), Box<dyn error::TexError>> {
        self.recovered.set(self.recovered.get() + 1);
        Ok(())
    }
}
impl the::TheCompatible for S {}
implement_has_component![S{
    codes_cat_code: codes::Component<CatCode>,
    conditional: conditional::Component,
    end_line_char: endlinechar::Component,
    prefix: prefix::Component,
    registers_i32: registers::Component<i32, 256>,
    registers_scaled: registers::Component<common::Scaled, 256>,
    registers_glue: registers::Component<common::Glue, 256>,
    registers_token_list: registers::Component<Vec<token::Token>, 256>,
}];

struct H;
impl vm::Handlers<S> for H {
    fn character_handler(
        input: &mut vm::ExecutionInput<S>,
        _t: token::Token,
        c: char,
    ) -> texlang::prelude::Result<()> {
        input.state().step();
        input.state_mut().out.push(c);
        Ok(())
    }
}

fn built_ins() -> HashMap<&'static str, command::BuiltIn<S>> {
    HashMap::from([
        ("advance", math::get_advance()),
        ("multiply", math::get_multiply()),
        ("divide", math::get_divide()),
        ("catcode", codes::get_catcode()),
        ("chardef", chardef::get_chardef()),
        ("count", registers::get_count()),
        ("countdef", registers::get_countdef()),
        ("def", def::get_def()),
        ("gdef", def::get_gdef()),
        ("dimen", registers::get_dimen()),
        ("skip", registers::get_skip()),
        ("toks", registers::get_toks()),
        ("toksdef", registers::get_toksdef()),
        ("else", conditional::get_else()),
        ("fi", conditional::get_fi()),
        ("or", conditional::get_or()),
        ("ifcase", conditional::get_ifcase()),
        ("iffalse", conditional::get_iffalse()),
        ("iftrue", conditional::get_iftrue()),
        ("ifnum", conditional::get_ifnum()),
        ("ifodd", conditional::get_ifodd()),
        ("endlinechar", endlinechar::get_endlinechar()),
        ("expandafter", expansion::get_expandafter_optimized()),
        ("expandafterS", expansion::get_expandafter_simple()),
        ("noexpand", expansion::get_noexpand()),
        ("relax", expansion::get_relax()),
        ("global", prefix::get_global()),
        ("globaldefs", prefix::get_globaldefs()),
        ("long", prefix::get_long()),
        ("outer", prefix::get_outer()),
        ("let", alias::get_let()),
        ("the", the::get_the()),
        ("endinput", input::get_endinput()),
    ])
}

struct Rng(u64);
impl Rng {
    fn next(&mut self) -> u64 {
        self.0 = self.0.wrapping_add(0x9E3779B97F4A7C15);
        let mut z = self.0;
        z = (z ^ (z >> 30)).wrapping_mul(0xBF58476D1CE4E5B9);
        z = (z ^ (z >> 27)).wrapping_mul(0x94D049BB133111EB);
        z ^ (z >> 31)
    }
    fn below(&mut self, n: u64) -> u64 {
        self.next() % n
    }
    fn pick<'a>(&mut self, xs: &[&'a str]) -> &'a str {
        xs[self.below(xs.len() as u64) as usize]
    }
}

/// (program, expected output if known)
fn gen(idx: u64) -> (String, Option<String>) {
    let mut r = Rng(idx.wrapping_mul(0xD6E8FEB86659FD93) ^ 0x5EED);
    // fixed programs with known answers first
    const FIXED: &[(&str, &str)] = &[
        ("\\count1=1 {{\\count1=2 \\global\\count1=3 }}\\the\\count1", "3"),
        ("\\catcode`\\~=13 \\def~{A}{\\def~{B}~}~", "BA"),
        ("\\def\\a#1#2{[#2#1]}\\a xy\\a{pq}{r}", "[yx][rpq]"),
        ("\\def\\a#1.{(#1)}\\a{x}{y}.\\a{z}.", "({x}{y})(z)"),
        ("\\def\\a{A}\\def\\b#1{<#1>}\\expandafter\\b\\a", "<A>"),
        ("\\def\\a{A}\\def\\b#1{<#1>}\\expandafterS\\b\\a", "<A>"),
        ("\\ifodd-3 T\\else F\\fi\\ifnum-1<0 a\\else b\\fi\\ifcase2 x\\or y\\or z\\else w\\fi", "Taz"),
        ("\\iffalse{\\iftrue x\\fi\\else ok\\fi", "ok"),
        ("^^41^^5e^^M", "A"),
        ("a^^Mb\\endinput\nc", "a "),
        ("\\toks3={ab#c}\\the\\toks3 \\dimen2=1.5pt \\the\\dimen2 \\skip4=2pt plus 1fil\\the\\skip4", "ab#c1.5pt2.0pt plus 1.0fil"),
        ("é^^e9\\def\\é{x}\\é 😀^^^", "éx😀"),
        ("\\def\\a{\\noexpand\\b}\\def\\b{B}\\expandafter\\def\\expandafter\\c\\expandafter{\\a}\\c", "B"),
        ("\\globaldefs=1 {\\count5=7 \\def\\x{X}}\\the\\count5\\x", "7X"),
        ("\\countdef\\c=9 \\c=4 \\advance\\c by 3 \\multiply\\c by 2 \\divide\\c by 3 \\the\\count9", "4"),
    ];
    if (idx as usize) < FIXED.len() {
        let (p, e) = FIXED[idx as usize];
        // entries whose exact output depends on behaviour under discussion get no expectation
        // (also the ones that depend on repairs tracked under C02/C07, and two whose TeX answer
        // is subtle: Miri's UB detection is the oracle here, the expectation is a smoke test)
        let no_expect = p.starts_with("^^41")
            || p.starts_with("é")
            || p.starts_with("a^^M")
            || p.contains("\\a{x}{y}.")
            || p.starts_with("\\ifodd-3")
            || p.starts_with("\\toks3")
            || p.contains("\\noexpand");
        return (p.to_string(), if no_expect { None } else { Some(e.to_string()) });
    }
    // random: groups + assignments + macros + conditionals + carets
    let mut s = String::new();
    let mut depth = 0;
    let n = 6 + r.below(24);
    for _ in 0..n {
        match r.below(16) {
            0 | 1 => {
                s.push('{');
                depth += 1
            }
            2 | 3 if depth > 0 => {
                s.push('}');
                depth -= 1
            }
            4 => s.push_str(&format!("{}\\count{}={}\\relax ", r.pick(&["", "\\global"]), r.below(4), r.below(1000))),
            5 => s.push_str(&format!("{}\\def\\{}{{{}}}", r.pick(&["", "\\global"]), r.pick(&["a", "b", "c"]), r.pick(&["x", "\\a", "{y}", "#", "^^41", "é"]).replace('#', ""))),
            6 => s.push_str(&format!("\\def\\{}#1#2{{(#2|#1)}}", r.pick(&["d", "e"]))),
            7 => s.push_str(&format!("\\{} uv", r.pick(&["d", "e", "relax"]))),
            8 => s.push_str(&format!("\\ifnum\\count{}<{} p\\else q\\fi", r.below(4), r.below(1000))),
            9 => s.push_str(&format!("\\the\\count{}\\relax ", r.below(4))),
            10 => s.push_str(r.pick(&["^^41", "^^M", "^^?x", "^^^", "é^^e9", "^^5e", "😀", "\n", " \n\n", "%c\n"])),
            11 => s.push_str(&format!("\\toks{}={{{}}}\\the\\toks{} ", r.below(3), r.pick(&["a", "\\a b", "{c}"]), r.below(3))),
            12 => s.push_str(&format!("\\{}\\{}\\{} ", r.pick(&["expandafter", "expandafterS"]), r.pick(&["relax", "a", "the"]), r.pick(&["a", "b", "count1 "]))),
            13 => s.push_str(&format!("\\let\\{}=\\{} ", r.pick(&["a", "b", "f"]), r.pick(&["a", "relax", "iftrue", "fi"]))),
            14 => s.push_str(&format!("\\catcode`\\{}={}\\relax ", r.pick(&["~", "!", "Q"]), r.pick(&["11", "12", "13", "9", "14"]))),
            _ => s.push_str(r.pick(&["a", "b", " ", "~", "!", "\\a", "\\b", "\\undefined"])),
        }
    }
    for _ in 0..depth {
        s.push('}');
    }
    (s, None)
}

fn main() {
    let args: Vec<String> = std::env::args().collect();
    let first: u64 = args.get(1).and_then(|a| a.parse().ok()).unwrap_or(0);
    let count: u64 = args.get(2).and_then(|a| a.parse().ok()).unwrap_or(4);
    let mut ok = 0;
    let mut err = 0;
    let mut mismatches = 0;
    let mut budget = 0;
    std::panic::set_hook(Box::new(|info| {
        if info.payload().downcast_ref::<Budget>().is_none() {
            eprintln!("panic: {info}");
        }
    }));
    for idx in first..first + count {
        let (program, expect) = gen(idx);
        let mut vm = vm::VM::<S>::new_with_built_in_commands(built_ins());
        vm.working_directory = Some("/vwork".into());
        vm.push_source("miri.tex", program.clone()).unwrap();
        let r = std::panic::catch_unwind(std::panic::AssertUnwindSafe(|| vm.run::<H>()));
        match r {
            Ok(Ok(())) => ok += 1,
            Ok(Err(e)) => {
                // rendering goes through the tracer as well
                let _ = format!("{e}");
                err += 1
            }
            Err(payload) => {
                if payload.downcast_ref::<Budget>().is_some() {
                    budget += 1;
                    continue;
                }
                std::panic::resume_unwind(payload);
            }
        }
        // the lexer's in-place write must leave the output valid UTF-8 (checked by String itself
        // when it is cloned char by char)
        let out: String = vm.state.out.chars().collect();
        if let Some(e) = expect {
            if out.trim_end() != e {
                mismatches += 1;
                println!("MISMATCH idx={idx} program={program:?} expected={e:?} got={out:?}");
            }
        }
    }
    println!("VMIRI first={first} count={count} ok={ok} err={err} mismatches={mismatches} budget={budget}");
}
