//! Monitor for property C13 - Liang hyphenation positions; exceptions always win; matching
//! through the lower-case map (DESIGN.md §6 C13).
//!
//! Observed event: `hyphenate::Hyphenator::calculate_indices(lower_caser, word)` of the real crate,
//! for hyphenators built through the public `load_patterns` / `insert_exception` API.
//! Oracle: `vmodels::liang` (transcription of TeX §919-§931, §934-§940, §960-§965), two formulations.

use std::sync::OnceLock;
use vcore::*;
use vmodels::liang::{Liang, Pattern};

pub struct M;
pub static MONITOR: M = M;

const KNOWN_EXC: &str = "C13-exception-overridden-by-high-digit";

// ------------------------------------------------------------------------------------------
// alphabets and the lower-case map
// ------------------------------------------------------------------------------------------

/// A letter = (lower-case form, upper-case form). The non-ASCII ones make the byte offset of a
/// letter differ from its index (the implementation slices the word by byte offsets).
const ASCII3: &[(char, char)] = &[('a', 'A'), ('b', 'B'), ('c', 'C')];
const ASCII26: &[(char, char)] = &[
    ('a', 'A'), ('b', 'B'), ('c', 'C'), ('d', 'D'), ('e', 'E'), ('f', 'F'), ('g', 'G'), ('h', 'H'), ('i', 'I'),
    ('j', 'J'), ('k', 'K'), ('l', 'L'), ('m', 'M'), ('n', 'N'), ('o', 'O'), ('p', 'P'), ('q', 'Q'), ('r', 'R'),
    ('s', 'S'), ('t', 'T'), ('u', 'U'), ('v', 'V'), ('w', 'W'), ('x', 'X'), ('y', 'Y'), ('z', 'Z'),
];
const ASCII4: &[(char, char)] = &[('a', 'A'), ('b', 'B'), ('c', 'C'), ('d', 'D')];
const MULTI3: &[(char, char)] = &[('a', 'A'), ('é', 'É'), ('ж', 'Ж')];
const MULTI4: &[(char, char)] = &[('a', 'A'), ('é', 'É'), ('ж', 'Ж'), ('ḁ', 'Ḁ')];

/// The harness's own lower-case map (the `\lccode` table of the configuration): defined exactly on
/// the letters of the alphabet in use.
struct TableLc {
    letters: &'static [(char, char)],
}

impl hyphenate::LowerCaser for TableLc {
    fn to_lower_case(&self, c: char) -> Option<char> {
        self.letters
            .iter()
            .find(|(l, u)| *l == c || *u == c)
            .map(|(l, _)| *l)
    }
}

fn lower_table(letters: &[(char, char)], c: char) -> Option<char> {
    letters
        .iter()
        .find(|(l, u)| *l == c || *u == c)
        .map(|(l, _)| *l)
}

fn lower_ascii(c: char) -> Option<char> {
    if c.is_ascii_alphabetic() {
        Some(c.to_ascii_lowercase())
    } else {
        None
    }
}

// ------------------------------------------------------------------------------------------
// running the real code
// ------------------------------------------------------------------------------------------

enum LcKind {
    Ascii,
    Table(&'static [(char, char)]),
}

struct Real {
    h: hyphenate::Hyphenator,
    lc: LcKind,
}

impl Real {
    fn indices(&self, word: &str) -> Result<Vec<usize>, PanicInfo> {
        match &self.lc {
            LcKind::Ascii => {
                let lc = hyphenate::AsciiLowerCaser::default();
                catch(|| self.h.calculate_indices(&lc, word).collect::<Vec<usize>>())
            }
            LcKind::Table(t) => {
                let lc = TableLc { letters: t };
                catch(|| self.h.calculate_indices(&lc, word).collect::<Vec<usize>>())
            }
        }
    }
    fn lower(&self, word: &str) -> Option<Vec<char>> {
        word.chars()
            .map(|c| match &self.lc {
                LcKind::Ascii => lower_ascii(c),
                LcKind::Table(t) => lower_table(t, c),
            })
            .collect()
    }
}

/// A configuration: pattern texts and exception texts, given to the real code and to the model.
#[derive(Clone, Debug, Default)]
struct Config {
    patterns: Vec<String>,
    exceptions: Vec<String>,
}

fn build(cfg: &Config, lc: LcKind) -> Result<(Real, Liang), PanicInfo> {
    let mut model = Liang::new();
    for p in &cfg.patterns {
        let parsed = Pattern::parse(p).expect("generator emits only in-domain patterns");
        let fresh = model.add_pattern(parsed);
        assert!(fresh, "generator emits no duplicate patterns");
    }
    for e in &cfg.exceptions {
        model.add_exception(e);
    }
    let text = cfg.patterns.join(" ");
    let exc = cfg.exceptions.clone();
    let h = catch(move || {
        let mut h = hyphenate::Hyphenator::default();
        h.load_patterns(&text);
        for e in &exc {
            h.insert_exception(e);
        }
        h
    })?;
    Ok((Real { h, lc }, model))
}

/// Statistics about one word that feed the observation counters.
#[derive(Default)]
struct WordFacts {
    has_position: bool,
    exception: bool,
    exception_and_pattern_match: bool,
    competition: bool,
    start_anchor_match: bool,
    end_anchor_match: bool,
    long_match: bool,
    zero_run16_match: bool,
    high_digit_match: bool,
}

fn facts(model: &Liang, w: &[char]) -> WordFacts {
    let mut f = WordFacts::default();
    let n = w.len();
    let mut contrib: Vec<Vec<u8>> = vec![vec![]; n + 1];
    let mut any_match = false;
    for p in model.patterns() {
        let m = p.letters.len();
        if m > n {
            continue;
        }
        for off in 0..=(n - m) {
            if (p.start && off != 0) || (p.end && off + m != n) {
                continue;
            }
            if w[off..off + m] != p.letters[..] {
                continue;
            }
            any_match = true;
            f.start_anchor_match |= p.start;
            f.end_anchor_match |= p.end;
            f.long_match |= m >= 17;
            // a run of >= 16 zero levels before a non-zero level or before the end: the op stream
            // needs the 15*16+0 continuation byte
            let mut run = 0;
            for d in &p.digits {
                if *d == 0 {
                    run += 1;
                } else {
                    if run >= 16 {
                        f.zero_run16_match = true;
                    }
                    run = 0;
                }
            }
            if run >= 17 {
                f.zero_run16_match = true;
            }
            for k in 0..=m {
                if p.digits[k] != 0 {
                    contrib[off + k].push(p.digits[k]);
                    if p.digits[k] >= 6 && off + k >= 1 && off + k < n {
                        f.high_digit_match = true;
                    }
                }
            }
        }
    }
    f.competition = contrib[1..n.max(1)]
        .iter()
        .any(|c| c.iter().any(|d| d % 2 == 1) && c.iter().any(|d| d % 2 == 0));
    f.exception = model.exception(w).is_some();
    f.exception_and_pattern_match = f.exception && any_match;
    f.has_position = !model.positions(w).is_empty();
    f
}

/// Compare the real code with the model on one word. Returns true if the word was evaluated.
fn check_word(
    obs: &mut Obs,
    real: &Real,
    model: &Liang,
    cfg_desc: &dyn Fn() -> Value,
    word: &str,
    detailed: bool,
) -> Option<WordFacts> {
    let Some(lw) = real.lower(word) else {
        obs.skip("word contains a non-letter");
        return None;
    };
    obs.count("words_checked");
    let want = model.positions(&lw);
    let got = match real.indices(word) {
        Ok(v) => v,
        Err(p) => {
            obs.repo_panic(&p, json!({"config": cfg_desc(), "word": word}));
            return None;
        }
    };
    if got != want {
        // known finding: the word is an exception and a pattern level >= 7 matches inside it
        let is_exc = model.exception(&lw).is_some();
        let n = lw.len();
        let high = {
            let s = model.scores(&lw);
            (1..n).any(|i| s[i] >= 7)
        };
        let detail = json!({
            "config": cfg_desc(), "word": word, "lower_cased": lw.iter().collect::<String>(),
            "got_positions": got, "model_positions": want,
            "model_levels": model.scores(&lw), "exception_entry": model.exception(&lw),
        });
        if is_exc && high && got == model.positions_exception_as_levels(&lw) {
            obs.known(KNOWN_EXC, detail);
        } else {
            let extra = got.iter().any(|g| !want.contains(g));
            let missing = want.iter().any(|g| !got.contains(g));
            let sig = format!(
                "positions-differ/{}/{}",
                if is_exc { "exception-word" } else { "patterns" },
                match (extra, missing) {
                    (true, true) => "extra+missing",
                    (true, false) => "extra",
                    (false, true) => "missing",
                    _ => "order",
                }
            );
            obs.violation(sig, detail);
        }
    }
    if !detailed {
        if !want.is_empty() {
            obs.count("words_with_positions");
        }
        return Some(WordFacts {
            has_position: !want.is_empty(),
            ..Default::default()
        });
    }
    // two formulations of the model must agree
    if model.scores(&lw) != model.scores_linear(&lw) {
        obs.inconclusive(format!("model formulations disagree on {word:?}"));
    }
    let f = facts(model, &lw);
    for (c, name) in [
        (f.has_position, "words_with_positions"),
        (f.exception, "words_in_exception_list"),
        (f.exception_and_pattern_match, "exception_words_where_patterns_also_match"),
        (f.competition, "words_with_competing_odd_even_levels"),
        (f.start_anchor_match, "words_matched_by_start_anchored_pattern"),
        (f.end_anchor_match, "words_matched_by_end_anchored_pattern"),
        (f.long_match, "words_matched_by_pattern_of_17+_letters"),
        (f.zero_run16_match, "words_matched_by_pattern_with_16+_zero_run"),
        (f.high_digit_match, "words_matched_by_level_6-9"),
    ] {
        if c {
            obs.count(name);
        }
    }
    if word.chars().any(|c| lower_ascii(c).or(lower_table(MULTI4, c)) != Some(c)) {
        obs.count("words_with_upper_case");
    }
    if word.len() != word.chars().count() {
        obs.count("words_with_multibyte_letters");
    }
    Some(f)
}

// ------------------------------------------------------------------------------------------
// generators
// ------------------------------------------------------------------------------------------

fn gen_digit(rng: &mut Rng, zero_num: u64, zero_den: u64) -> u8 {
    if rng.chance(zero_num, zero_den) {
        0
    } else {
        match rng.below(10) {
            0..=4 => rng.range_usize(1, 5) as u8,
            _ => rng.range_usize(6, 9) as u8,
        }
    }
}

fn pattern_text(start: bool, end: bool, letters: &[char], digits: &[u8]) -> String {
    Pattern {
        start,
        end,
        letters: letters.to_vec(),
        digits: digits.to_vec(),
    }
    .to_text()
}

fn gen_pattern(rng: &mut Rng, alpha: &[(char, char)], len: usize) -> (bool, bool, Vec<char>, Vec<u8>) {
    let letters: Vec<char> = (0..len).map(|_| rng.pick(alpha).0).collect();
    let start = rng.chance(1, 5);
    let end = rng.chance(1, 5);
    let mut digits: Vec<u8> = (0..=len).map(|_| gen_digit(rng, 11, 20)).collect();
    if digits.iter().all(|d| *d == 0) && rng.chance(9, 10) {
        let i = rng.usize_below(len + 1);
        digits[i] = rng.range_usize(1, 9) as u8;
    }
    (start, end, letters, digits)
}

fn gen_exception(rng: &mut Rng, alpha: &[(char, char)], maxlen: usize) -> String {
    let len = rng.range_usize(1, maxlen);
    let mut s = String::new();
    if rng.chance(1, 12) {
        s.push('-');
    }
    for i in 0..len {
        s.push(rng.pick(alpha).0);
        if i + 1 < len && rng.chance(1, 3) {
            s.push('-');
            if rng.chance(1, 20) {
                s.push('-');
            }
        }
    }
    if rng.chance(1, 12) {
        s.push('-');
    }
    s
}

fn gen_config(rng: &mut Rng, alpha: &[(char, char)]) -> Config {
    let mut cfg = Config::default();
    let npat = match rng.below(10) {
        0 => 1,
        1..=5 => rng.range_usize(2, 6),
        6..=8 => rng.range_usize(7, 14),
        _ => rng.range_usize(15, 40),
    };
    let mut keys = std::collections::HashSet::new();
    for _ in 0..npat {
        let len = match rng.below(20) {
            0..=5 => 1,
            6..=11 => 2,
            12..=15 => 3,
            16..=17 => 4,
            18 => 5,
            _ => rng.range_usize(6, 9),
        };
        let (s, e, l, d) = gen_pattern(rng, alpha, len);
        if keys.insert((s, e, l.clone())) {
            cfg.patterns.push(pattern_text(s, e, &l, &d));
        }
    }
    // nested pairs: a pattern and an extension of it by one letter (shared trie path)
    if rng.chance(1, 2) && !cfg.patterns.is_empty() {
        let base = Pattern::parse(pick_string(rng, &cfg.patterns)).expect("in domain");
        if !base.end {
            let mut l = base.letters.clone();
            l.push(rng.pick(alpha).0);
            let d: Vec<u8> = (0..=l.len()).map(|_| gen_digit(rng, 1, 2)).collect();
            if keys.insert((base.start, false, l.clone())) {
                cfg.patterns.push(pattern_text(base.start, false, &l, &d));
            }
        }
    }
    let nexc = match rng.below(10) {
        0..=3 => 0,
        4..=7 => rng.range_usize(1, 3),
        _ => rng.range_usize(4, 10),
    };
    for _ in 0..nexc {
        cfg.exceptions.push(gen_exception(rng, alpha, 7));
    }
    // the same word listed twice: the later entry wins
    if nexc > 0 && rng.chance(1, 4) {
        let w: String = pick_string(rng, &cfg.exceptions).chars().filter(|c| *c != '-').collect();
        let chars: Vec<char> = w.chars().collect();
        let mut s = String::new();
        for (i, c) in chars.iter().enumerate() {
            s.push(*c);
            if i + 1 < chars.len() && rng.coin() {
                s.push('-');
            }
        }
        cfg.exceptions.push(s);
    }
    // an exception whose letters equal an anchored pattern (.w.) of the set: same trie node
    if rng.chance(1, 6) {
        let l: Vec<char> = (0..rng.range_usize(2, 4)).map(|_| rng.pick(alpha).0).collect();
        if keys.insert((true, true, l.clone())) {
            let d: Vec<u8> = (0..=l.len()).map(|_| gen_digit(rng, 1, 3)).collect();
            cfg.patterns.push(pattern_text(true, true, &l, &d));
            let mut s = String::new();
            for (i, c) in l.iter().enumerate() {
                s.push(*c);
                if i + 1 < l.len() && rng.coin() {
                    s.push('-');
                }
            }
            cfg.exceptions.push(s);
        }
    }
    // digits outside the word delimiters: TeX §962 stores them like any other and §965 clears them again
    // ("if hc[1]=0 then hyf[0]:=0; if hc[k]=0 then hyf[k]:=0"): `9.ab` is `.ab`, `b3.9` is `b3.` (found by the
    // coverage-guided stage: the code under test looked at the first/last *character* of the text to find the anchors)
    // written-out zeros: `a0b1c` is `ab1c` (TeX §962 stores the 0 like any other digit)
    for p in cfg.patterns.iter_mut() {
        if rng.chance(1, 8) {
            let cs: Vec<char> = p.chars().collect();
            let mut out = String::new();
            for (i, c) in cs.iter().enumerate() {
                out.push(*c);
                let next_is_letter = cs.get(i + 1).map(|n| !n.is_ascii_digit() && *n != '.').unwrap_or(false);
                if !c.is_ascii_digit() && *c != '.' && next_is_letter && rng.chance(1, 2) {
                    out.push('0');
                }
            }
            *p = out;
        }
    }
    for p in cfg.patterns.iter_mut() {
        if p.starts_with('.') && rng.chance(1, 10) {
            p.insert(0, (b'1' + rng.below(9) as u8) as char);
        }
        if p.ends_with('.') && rng.chance(1, 10) {
            p.push((b'1' + rng.below(9) as u8) as char);
        }
    }
    cfg
}

fn random_case(rng: &mut Rng, alpha: &[(char, char)], w: &[char], mode: u64) -> String {
    w.iter()
        .enumerate()
        .map(|(i, c)| {
            let up = alpha.iter().find(|(l, _)| l == c).map(|(_, u)| *u).unwrap_or(*c);
            match mode {
                0 => *c,
                1 => up,
                2 => {
                    if i == 0 {
                        up
                    } else {
                        *c
                    }
                }
                _ => {
                    if rng.coin() {
                        up
                    } else {
                        *c
                    }
                }
            }
        })
        .collect()
}

/// idx-th word in the enumeration of all words of length 1..=maxlen over `k` letters
/// (shortest first). Returns None past the end.
fn nth_word(alpha: &[(char, char)], mut idx: u64, maxlen: usize) -> Option<Vec<char>> {
    let k = alpha.len() as u64;
    let mut len = 1;
    let mut block = k;
    loop {
        if len > maxlen {
            return None;
        }
        if idx < block {
            break;
        }
        idx -= block;
        block *= k;
        len += 1;
    }
    let mut w = vec![];
    for _ in 0..len {
        w.push(alpha[(idx % k) as usize].0);
        idx /= k;
    }
    Some(w)
}

fn cfg_json(cfg: &Config) -> Value {
    json!({"patterns": cfg.patterns, "exceptions": cfg.exceptions})
}

// ------------------------------------------------------------------------------------------
// plain TeX patterns
// ------------------------------------------------------------------------------------------

struct Plain {
    real: Real,
    model: Liang,
    pattern_letters: Vec<String>,
    exception_words: Vec<String>,
}

fn read_repo(rel: &str) -> Result<String, String> {
    let p = repo_dir().join(rel);
    std::fs::read_to_string(&p).map_err(|e| format!("{}: {e}", p.display()))
}

fn plain() -> Result<&'static Plain, String> {
    static P: OnceLock<Result<Plain, String>> = OnceLock::new();
    P.get_or_init(|| {
        let pats = read_repo("crates/hyphenate/src/plain_tex_patterns.txt")?;
        let excs = read_repo("crates/hyphenate/src/plain_tex_exceptions.txt")?;
        let mut model = Liang::new();
        let bad = model.load_patterns(&pats);
        if bad != 0 {
            return Err(format!("{bad} plain TeX patterns are malformed or duplicated"));
        }
        let mut exception_words = vec![];
        for l in excs.lines().map(|l| l.trim()).filter(|l| !l.is_empty()) {
            model.add_exception(l);
            exception_words.push(l.chars().filter(|c| *c != '-').collect());
        }
        let pattern_letters = model
            .patterns()
            .iter()
            .map(|p| p.letters.iter().collect::<String>())
            .collect();
        let h = catch(hyphenate::Hyphenator::plain_tex_en_us)
            .map_err(|p| format!("plain_tex_en_us panicked: {}", p.message))?;
        Ok(Plain {
            real: Real {
                h,
                lc: LcKind::Ascii,
            },
            model,
            pattern_letters,
            exception_words,
        })
    })
    .as_ref()
    .map_err(|e| e.clone())
}

const ONSETS: &[&str] = &[
    "b", "c", "d", "f", "g", "h", "j", "k", "l", "m", "n", "p", "qu", "r", "s", "t", "v", "w", "x", "z", "bl",
    "br", "ch", "cl", "cr", "dr", "fl", "fr", "gl", "gr", "ph", "pl", "pr", "sc", "sh", "sl", "sp", "st", "str",
    "th", "tr", "wh", "",
];
const NUCLEI: &[&str] = &[
    "a", "e", "i", "o", "u", "y", "ai", "ea", "ee", "ie", "io", "oo", "ou", "ia", "ue",
];
const CODAS: &[&str] = &[
    "", "", "", "n", "r", "s", "t", "l", "m", "ng", "nt", "st", "ck", "ff", "ll", "ss", "rd", "x", "c", "ble",
    "tion", "ment", "ness", "ing", "ed", "ly", "ism", "ist", "ic", "al",
];

fn pick_s(rng: &mut Rng, xs: &[&'static str]) -> &'static str {
    xs[rng.usize_below(xs.len())]
}

fn pick_string<'a>(rng: &mut Rng, xs: &'a [String]) -> &'a str {
    xs[rng.usize_below(xs.len())].as_str()
}

fn gen_plain_word(rng: &mut Rng, p: &Plain) -> String {
    let mut w = String::new();
    match rng.below(10) {
        0..=3 => {
            for _ in 0..rng.range_usize(1, 6) {
                w.push_str(pick_s(rng, ONSETS));
                w.push_str(pick_s(rng, NUCLEI));
                w.push_str(pick_s(rng, CODAS));
            }
        }
        4..=7 => {
            for _ in 0..rng.range_usize(1, 5) {
                w.push_str(pick_string(rng, &p.pattern_letters));
                if rng.chance(1, 3) {
                    w.push_str(pick_s(rng, NUCLEI));
                }
            }
        }
        8 => {
            w.push_str(pick_string(rng, &p.exception_words));
            if rng.chance(1, 3) {
                w.push_str(pick_s(rng, CODAS));
            }
            if rng.chance(1, 6) {
                w.insert_str(0, pick_s(rng, ONSETS));
            }
        }
        _ => {
            for _ in 0..rng.range_usize(1, 40) {
                w.push((b'a' + rng.below(26) as u8) as char);
            }
        }
    }
    let mut chars: Vec<char> = w.chars().take(40).collect();
    if chars.is_empty() {
        chars.push('a');
    }
    let mode = rng.below(6).min(3);
    let mut out = String::new();
    for (i, c) in chars.iter().enumerate() {
        let up = match mode {
            0 => false,
            1 => true,
            2 => i == 0,
            _ => rng.coin(),
        };
        out.push(if up { c.to_ascii_uppercase() } else { *c });
    }
    out
}

/// Ground truth copied from the unit tests of crates/hyphenate/src/lib.rs (`hyphenation_tests!`;
/// the first block are TeXbook words, the second was produced with real TeX over a dictionary).
const GOLDEN_WORDS: &[(&str, &str)] = &[
    ("record", "record"),
    ("hyphenation", "hy-phen-ation"),
    ("concatenation", "con-cate-na-tion"),
    (
        "supercalifragilisticexpialidocious",
        "su-per-cal-ifrag-ilis-tic-ex-pi-ali-do-cious",
    ),
    ("bachelor", "bach-e-lor"),
    ("echelon", "ech-e-lon"),
    ("toothaches", "toothaches"),
    ("campfire", "camp-fire"),
    ("biorhythm", "biorhyth-m"),
    ("algorithm", "al-go-rith-m"),
    (
        "pneumonoultramicroscopicsilicovolcanoconiosis",
        "p-neu-monoul-tra-mi-cro-scop-ic-sil-i-co-vol-canoco-nio-sis",
    ),
    ("project", "project"),
    ("present", "present"),
    ("table", "ta-ble"),
    ("Table", "Ta-ble"),
    ("ach", "ach"),
    ("Aaronic", "Aa-ron-ic"),
    ("Abelia", "A-beli-a"),
    ("William", "William"),
    ("chaffless", "chaf-f-less"),
];

/// `aggregate_scores` asserted by the `explanation_tests!` of the same file.
const GOLDEN_LEVELS: &[(&str, &[u8])] = &[
    ("difficult", &[0, 1, 4, 1, 0, 3, 0, 4, 0]),
    ("cove", &[0, 0, 4, 1]),
    ("antce", &[0, 2, 4, 4, 0]),
];

// ------------------------------------------------------------------------------------------
// the exhaustively enumerated single-pattern space
// ------------------------------------------------------------------------------------------

const ENUM_ALPHA: &[(char, char)] = &[('a', 'A'), ('b', 'B')];
const ENUM_LEVELS: [u8; 4] = [0, 1, 2, 7];

/// Number of patterns with `len` letters: 2^len letter strings * 4^(len+1) level vectors * 4 anchors.
fn enum_block(len: u32) -> u64 {
    2u64.pow(len) * 4u64.pow(len + 1) * 4
}

fn enum_total() -> u64 {
    enum_block(1) + enum_block(2) + enum_block(3)
}

fn enum_decode(mut idx: u64) -> (bool, bool, Vec<char>, Vec<u8>) {
    let mut len = 1u32;
    while idx >= enum_block(len) {
        idx -= enum_block(len);
        len += 1;
    }
    let start = idx & 1 == 1;
    let end = idx & 2 == 2;
    idx >>= 2;
    let mut letters = vec![];
    for _ in 0..len {
        letters.push(ENUM_ALPHA[(idx & 1) as usize].0);
        idx >>= 1;
    }
    let mut digits = vec![];
    for _ in 0..=len {
        digits.push(ENUM_LEVELS[(idx & 3) as usize]);
        idx >>= 2;
    }
    (start, end, letters, digits)
}

// ------------------------------------------------------------------------------------------

impl Monitor for M {
    fn id(&self) -> &'static str {
        "C13"
    }

    fn rule(&self) -> String {
        "A case is one configuration (pattern set + exception list + lower-case map) together with the \
         words tried on it; every word is one evaluation of Hyphenator::calculate_indices compared with \
         the reference positions. Phases: `sets` = random pattern sets over 3-4 letter alphabets (ASCII \
         and multi-byte, levels 0-9, anchored/nested/overlapping patterns, exception lists incl. \
         duplicates and exception==anchored pattern), each tried on ALL words up to length 7 (3 letters) \
         or 6 (4 letters) plus random-case variants plus 40 random words of length <=40; `long` = \
         patterns of 17-40 letters whose zero runs straddle the 16-zero continuation byte; `enum` = \
         every single pattern of 1-3 letters over {a,b} with levels {0,1,2,7} and every anchor \
         combination, with and without an exception, on every word of length <=7 over {a,b} in both \
         cases; `plain` = plain TeX's 4447 patterns + 14 exceptions on generated English-like words in \
         random case; `bulk` = 50 000 patterns (every three-letter key and 35 000 four-letter keys, far more than 64 KiB \
         of stored levels), then 4-12 late patterns and 1-4 exceptions, on 400 words built around them; \
         `known` = the fixed reproducer of the listed finding. A case is non-trivial when \
         at least one of its words gets a hyphen position and at least one word has an odd and an even \
         level competing in the same gap (or is in the exception list while patterns match it); \
         distinct = hash of (patterns, exceptions, alphabet)."
            .into()
    }

    fn assumptions(&self) -> Vec<String> {
        vec![
            "patterns are well formed in TeX's sense (§962): no two digits in a row, `.` only first/last, no digit outside the dots, no duplicate pattern (TeX rejects those: 'Duplicate pattern')".into(),
            "patterns are loaded before exceptions (the order of Hyphenator::plain_tex_en_us); exception words are given in lower case (the API does not lower-case them, TeX's \\hyphenation does)".into(),
            "words consist of letters of the configuration's lower-case map only (the property's quantifier); behaviour on non-letters belongs to C14".into(),
            "the reference model is a transcription of TeX §919-§931/§934-§940/§960-§965, calibrated against the 20 hyphenation_tests! words and 3 explanation_tests! level vectors of crates/hyphenate/src/lib.rs and the TeXbook's Appendix H example".into(),
        ]
    }

    fn phases(&self, tier: Tier) -> Vec<Phase> {
        vec![
            Phase::new("known", 1).batch(1),
            Phase::new("enum", enum_total())
                .batch(128)
                .exhaustive("every single pattern of 1-3 letters over {a,b}, levels {0,1,2,7} in every gap, every anchor combination, alone and with the exception a-b/ab-a, on every word of length <=7 over {a,b}, lower and upper case"),
            Phase::new("sets", tier.pick(5_000, 240_000)).batch(8),
            Phase::new("long", tier.pick(10_000, 400_000)).batch(32),
            Phase::new("plain", tier.pick(4_000, 100_000)).batch(16),
            Phase::new("bulk", tier.pick(16, 160)).batch(1),
        ]
    }

    fn floors(&self, tier: Tier) -> Vec<(&'static str, u64)> {
        let q = tier == Tier::Quick;
        vec![
            ("words_checked", if q { 11_200_000 } else { 12 * 11_200_000 }),
            ("bulk_words_with_positions", if q { 3_000 } else { 30_000 }),
            ("words_with_positions", if q { 4_000_000 } else { 12 * 4_000_000 }),
            ("words_in_exception_list", if q { 20_000 } else { 12 * 20_000 }),
            ("exception_words_where_patterns_also_match", if q { 8_000 } else { 12 * 8_000 }),
            ("words_with_competing_odd_even_levels", if q { 500_000 } else { 12 * 500_000 }),
            ("words_matched_by_start_anchored_pattern", if q { 250_000 } else { 12 * 250_000 }),
            ("words_matched_by_end_anchored_pattern", if q { 250_000 } else { 12 * 250_000 }),
            ("words_matched_by_pattern_of_17+_letters", if q { 20_000 } else { 12 * 20_000 }),
            ("words_matched_by_pattern_with_16+_zero_run", if q { 15_000 } else { 12 * 15_000 }),
            ("words_matched_by_level_6-9", if q { 1_200_000 } else { 12 * 1_200_000 }),
            ("words_with_upper_case", if q { 1_200_000 } else { 12 * 1_200_000 }),
            ("words_with_multibyte_letters", if q { 1_200_000 } else { 12 * 1_200_000 }),
            ("plain_words_checked", if q { 200_000 } else { 12 * 200_000 }),
            ("plain_words_with_positions", if q { 150_000 } else { 12 * 150_000 }),
            ("plain_exception_words", if q { 5_000 } else { 12 * 5_000 }),
            ("known_reproducer_ran", 1),
        ]
    }

    fn calibrate(&self, obs: &mut Obs) {
        // model vs. the repository's TeX-derived tables
        let p = match plain() {
            Ok(p) => p,
            Err(e) => {
                obs.inconclusive(format!("cannot load plain TeX patterns: {e}"));
                return;
            }
        };
        for (word, want) in GOLDEN_WORDS {
            let lw: Vec<char> = word.chars().map(|c| c.to_ascii_lowercase()).collect();
            let pos = p.model.positions(&lw);
            let mut got = String::new();
            for (i, c) in word.chars().enumerate() {
                if pos.contains(&i) {
                    got.push('-');
                }
                got.push(c);
            }
            if got != *want {
                obs.inconclusive(format!(
                    "calibration: model hyphenates {word} as {got}, golden {want}"
                ));
            }
            obs.count("calibration_words");
        }
        for (word, want) in GOLDEN_LEVELS {
            let lw: Vec<char> = word.chars().collect();
            let mut s = p.model.scores(&lw);
            s[0] = 0;
            s.truncate(lw.len());
            if s != *want || p.model.scores(&lw) != p.model.scores_linear(&lw) {
                obs.inconclusive(format!(
                    "calibration: model levels for {word} are {s:?}, golden {want:?}"
                ));
            }
            obs.count("calibration_level_vectors");
        }
        // TeXbook Appendix H
        let mut m = Liang::new();
        m.load_patterns("hy3ph he2n hena4 hen5at 1na n2at 1tio 2io o2n");
        let w: Vec<char> = "hyphenation".chars().collect();
        if m.scores(&w) != vec![0, 0, 3, 0, 0, 2, 5, 4, 2, 0, 2, 0] || m.positions(&w) != vec![2, 6] {
            obs.inconclusive("calibration: TeXbook Appendix H example not reproduced by the model");
        }
    }

    fn run_case(&self, phase: &str, idx: u64, rng: &mut Rng, obs: &mut Obs) {
        match phase {
            "known" => run_known(obs),
            "enum" => run_enum(idx, obs),
            "sets" => run_set(idx, rng, obs),
            "long" => run_long(rng, obs),
            "plain" => run_plain(rng, obs),
            "bulk" => run_bulk(rng, obs),
            _ => obs.inconclusive(format!("unknown phase {phase}")),
        }
    }
}

// ------------------------------------------------------------------------------------------
// coverage-guided stage
// ------------------------------------------------------------------------------------------

/// Entry point of the libFuzzer target `c13_patterns_words` (harness/vfuzz). The input is three lines: patterns,
/// exceptions and words, blank separated. Patterns outside the model's domain (TeX §962: letters a-z, digits, dots at the
/// ends only; duplicates are dropped as TeX does) and words with non-letters are left out on both sides; everything
/// else is loaded into the real Hyphenator and into the transcription of Liang's algorithm, and every word's
/// positions are compared (`check_word`, the oracle of all generated phases).
pub fn fuzz_one(data: &[u8], obs: &mut Obs) {
    let Ok(text) = std::str::from_utf8(data) else {
        return;
    };
    let mut it = text.split('\n');
    let (pats, excs, words) = (it.next().unwrap_or(""), it.next().unwrap_or(""), it.next().unwrap_or(""));
    let mut cfg = Config::default();
    let mut probe = Liang::new();
    for p in pats.split(' ').filter(|p| !p.is_empty()).take(48) {
        if !p.chars().all(|c| c.is_ascii_lowercase() || c.is_ascii_digit() || c == '.') {
            continue;
        }
        let Ok(parsed) = Pattern::parse(p) else { continue };
        if probe.add_pattern(parsed) {
            cfg.patterns.push(p.to_string());
        }
    }
    for e in excs.split(' ').filter(|e| !e.is_empty()).take(12) {
        if e.chars().all(|c| c.is_ascii_lowercase() || c == '-') && e.chars().any(|c| c != '-') {
            cfg.exceptions.push(e.to_string());
        }
    }
    let (real, model) = match build(&cfg, LcKind::Ascii) {
        Ok(x) => x,
        Err(p) => {
            obs.repo_panic(&p, json!({"config": cfg_json(&cfg)}));
            return;
        }
    };
    let dsc = || cfg_json(&cfg);
    for w in words.split(' ').filter(|w| !w.is_empty()).take(24) {
        if w.chars().all(|c| c.is_ascii_alphabetic()) && w.len() <= 64 {
            check_word(obs, &real, &model, &dsc, w, false);
        }
    }
}

/// Seed corpus (generated configurations over the two ASCII alphabets with words built from their patterns and
/// exceptions) and dictionary for the libFuzzer target.
pub fn fuzz_seeds() -> vcore::fuzzglue::Seeds {
    let mut inputs = vec![];
    for k in 0..300u64 {
        let mut rng = Rng::new(0xC13 + k);
        let alpha: &'static [(char, char)] = if k % 2 == 0 { ASCII3 } else { ASCII4 };
        let cfg = gen_config(&mut rng, alpha);
        let mut words: Vec<String> = vec![];
        for e in cfg.exceptions.iter().take(4) {
            words.push(e.chars().filter(|c| *c != '-').collect());
        }
        for _ in 0..8 {
            let mut w = String::new();
            while w.len() < rng.range_usize(2, 16) {
                if !cfg.patterns.is_empty() && rng.chance(2, 3) {
                    w.extend(rng.pick(&cfg.patterns).chars().filter(|c| c.is_ascii_alphabetic()));
                } else {
                    w.push(rng.pick(alpha).0);
                }
            }
            words.push(w);
        }
        let pats: Vec<String> = cfg.patterns.iter().take(48).cloned().collect();
        inputs.push(format!("{}\n{}\n{}", pats.join(" "), cfg.exceptions.join(" "), words.join(" ")).into_bytes());
    }
    let dictionary = [".", "1", "2", "3", "4", "5", "6", "7", "8", "9", "0", "-", " ", "\n", "a1b", ".a2", "b3.", "abcdefghijklmnop1q"]
        .iter()
        .map(|s| s.to_string())
        .collect();
    vcore::fuzzglue::Seeds { inputs, dictionary }
}

fn run_known(obs: &mut Obs) {
    let cfg = Config {
        patterns: vec!["a9b".into()],
        exceptions: vec!["ab-ab".into()],
    };
    let (real, model) = match build(&cfg, LcKind::Ascii) {
        Ok(x) => x,
        Err(p) => {
            obs.repo_panic(&p, json!({"config": cfg_json(&cfg)}));
            return;
        }
    };
    obs.count("known_reproducer_ran");
    let d = || cfg_json(&cfg);
    for w in ["abab", "ABAB", "ab", "ababab"] {
        check_word(obs, &real, &model, &d, w, true);
    }
    obs.nontrivial(&("known", &cfg.patterns, &cfg.exceptions));
}

fn run_enum(idx: u64, obs: &mut Obs) {
    let (s, e, l, d) = enum_decode(idx);
    let text = pattern_text(s, e, &l, &d);
    if Pattern::parse(&text).map(|p| p.key()) != Ok((s, e, l.clone())) {
        obs.inconclusive(format!("enum: pattern text {text} does not parse back"));
        return;
    }
    // three configurations per pattern: alone; with exception "a-b"; with exception "ab-a"
    for exc in [None, Some("a-b"), Some("ab-a")] {
        let cfg = Config {
            patterns: vec![text.clone()],
            exceptions: exc.iter().map(|s| s.to_string()).collect(),
        };
        let (real, model) = match build(&cfg, LcKind::Ascii) {
            Ok(x) => x,
            Err(p) => {
                obs.repo_panic(&p, json!({"config": cfg_json(&cfg)}));
                return;
            }
        };
        let dsc = || cfg_json(&cfg);
        let mut w_idx = 0;
        while let Some(w) = nth_word(ENUM_ALPHA, w_idx, 7) {
            w_idx += 1;
            let lower: String = w.iter().collect();
            // full facts only on a thin slice (they cost more than the check itself)
            let detailed = w_idx % 16 == 0 || (exc.is_some() && w.len() <= 3);
            check_word(obs, &real, &model, &dsc, &lower, detailed);
            if exc.is_none() {
                let upper = lower.to_ascii_uppercase();
                check_word(obs, &real, &model, &dsc, &upper, false);
            }
        }
    }
    obs.nontrivial_by_construction(1);
    if obs.wants_sample() {
        obs.sample(json!({"pattern": text, "words": "all of length <=7 over {a,b}"}));
    }
}

fn run_set(idx: u64, rng: &mut Rng, obs: &mut Obs) {
    let (alpha, lc, maxlen): (&'static [(char, char)], LcKind, usize) = match idx % 4 {
        0 => (ASCII3, LcKind::Ascii, 7),
        1 => (ASCII4, LcKind::Ascii, 6),
        2 => (MULTI3, LcKind::Table(MULTI3), 7),
        _ => (MULTI4, LcKind::Table(MULTI4), 6),
    };
    let cfg = gen_config(rng, alpha);
    let (real, model) = match build(&cfg, lc) {
        Ok(x) => x,
        Err(p) => {
            obs.repo_panic(&p, json!({"config": cfg_json(&cfg)}));
            return;
        }
    };
    obs.count("sets_built");
    obs.add("patterns_loaded", cfg.patterns.len() as u64);
    obs.add("exceptions_loaded", cfg.exceptions.len() as u64);
    let dsc = || cfg_json(&cfg);
    let mut any_pos = false;
    let mut any_comp = false;
    let mut sample_words: Vec<Value> = vec![];
    // all words up to maxlen, lower case; every 4th also in a random case
    let mut w_idx = 0;
    while let Some(w) = nth_word(alpha, w_idx, maxlen) {
        w_idx += 1;
        let lower: String = w.iter().collect();
        let detailed = w_idx % 8 == 0 || model.exception(&w).is_some();
        if let Some(f) = check_word(obs, &real, &model, &dsc, &lower, detailed) {
            any_pos |= f.has_position;
            any_comp |= f.competition || f.exception_and_pattern_match;
        }
        if w_idx % 4 == 0 {
            let mode = rng.below(4).max(1);
            let cased = random_case(rng, alpha, &w, mode);
            check_word(obs, &real, &model, &dsc, &cased, true);
        }
    }
    // random longer words, biased to contain pattern letter strings and exception words
    let pats: Vec<Pattern> = model.patterns().to_vec();
    for _ in 0..40 {
        let target = match rng.below(4) {
            0 => rng.range_usize(1, 10),
            1 => rng.range_usize(8, 20),
            _ => rng.range_usize(15, 40),
        };
        let mut w: Vec<char> = vec![];
        if rng.chance(1, 8) && !cfg.exceptions.is_empty() {
            w = pick_string(rng, &cfg.exceptions).chars().filter(|c| *c != '-').collect();
        } else {
            while w.len() < target {
                if rng.chance(2, 3) && !pats.is_empty() {
                    w.extend(rng.pick(&pats).letters.iter());
                } else {
                    w.push(rng.pick(alpha).0);
                }
            }
            w.truncate(40);
        }
        let mode = rng.below(4);
        let cased = random_case(rng, alpha, &w, mode);
        if let Some(f) = check_word(obs, &real, &model, &dsc, &cased, true) {
            any_pos |= f.has_position;
            any_comp |= f.competition || f.exception_and_pattern_match;
            if sample_words.len() < 3 && f.has_position {
                let lw = real.lower(&cased).unwrap_or_default();
                sample_words.push(json!({"word": cased, "positions": model.positions(&lw)}));
            }
        }
    }
    if any_pos && any_comp {
        obs.nontrivial(&(idx % 4, &cfg.patterns, &cfg.exceptions));
    }
    if obs.wants_sample() {
        obs.sample(json!({"config": cfg_json(&cfg), "words": w_idx, "examples": sample_words}));
    }
}

fn run_long(rng: &mut Rng, obs: &mut Obs) {
    let (alpha, lc): (&'static [(char, char)], LcKind) = if rng.chance(3, 4) {
        (ASCII3, LcKind::Ascii)
    } else {
        (MULTI4, LcKind::Table(MULTI4))
    };
    // 1-3 long patterns whose non-zero levels sit right around gaps 15..17 and 31..33 counted from
    // the previous non-zero level (the op stream stores at most 15 skipped zeros per byte)
    let mut cfg = Config::default();
    let mut keys = std::collections::HashSet::new();
    let mut long_letters: Vec<Vec<char>> = vec![];
    for _ in 0..rng.range_usize(1, 3) {
        let len = rng.range_usize(17, 40);
        let letters: Vec<char> = (0..len).map(|_| rng.pick(alpha).0).collect();
        let start = rng.chance(1, 6);
        let end = rng.chance(1, 6);
        let mut digits = vec![0u8; len + 1];
        let mut g = 0usize;
        let mut first = true;
        loop {
            let step = *rng.pick(&[14usize, 15, 16, 17, 18, 30, 31, 32, 33, 34, 1, 2, 5]);
            // the first level may sit at gap `step - 1` so that exactly `step-1` zeros precede it
            g += if first { step.saturating_sub(rng.usize_below(2)) } else { step };
            first = false;
            if g > len {
                break;
            }
            digits[g] = rng.range_usize(1, 9) as u8;
        }
        if rng.chance(1, 4) {
            // nothing but zeros up to a late level or up to the end
            for d in digits.iter_mut() {
                *d = 0;
            }
            if rng.coin() {
                digits[len] = rng.range_usize(1, 9) as u8;
            } else if rng.coin() {
                let i = rng.range_usize(16.min(len), len);
                digits[i] = rng.range_usize(1, 9) as u8;
            }
        }
        if keys.insert((start, end, letters.clone())) {
            cfg.patterns.push(pattern_text(start, end, &letters, &digits));
            long_letters.push(letters);
        }
    }
    // a few short patterns compete with them
    for _ in 0..rng.range_usize(0, 4) {
        let len = rng.range_usize(1, 3);
        let (s, e, l, d) = gen_pattern(rng, alpha, len);
        if keys.insert((s, e, l.clone())) {
            cfg.patterns.push(pattern_text(s, e, &l, &d));
        }
    }
    if rng.chance(1, 4) {
        let l = rng.pick(&long_letters).clone();
        let mut s = String::new();
        for (i, c) in l.iter().enumerate() {
            s.push(*c);
            if i + 1 < l.len() && rng.chance(1, 5) {
                s.push('-');
            }
        }
        cfg.exceptions.push(s);
    }
    let (real, model) = match build(&cfg, lc) {
        Ok(x) => x,
        Err(p) => {
            obs.repo_panic(&p, json!({"config": cfg_json(&cfg)}));
            return;
        }
    };
    obs.count("long_sets_built");
    let dsc = || cfg_json(&cfg);
    let mut any = false;
    for l in &long_letters {
        for variant in 0..4 {
            // the pattern's letters with 0..(40-len) letters around them: exact word, prefixed, suffixed
            let room = 40 - l.len();
            let (pre, suf) = match variant {
                0 => (0, 0),
                1 => (rng.range_usize(0, room), 0),
                2 => (0, rng.range_usize(0, room)),
                _ => {
                    let a = rng.range_usize(0, room);
                    (a, rng.range_usize(0, room - a))
                }
            };
            let mut w: Vec<char> = (0..pre).map(|_| rng.pick(alpha).0).collect();
            w.extend(l.iter());
            w.extend((0..suf).map(|_| rng.pick(alpha).0));
            let mode = rng.below(4);
            let cased = random_case(rng, alpha, &w, mode);
            if let Some(f) = check_word(obs, &real, &model, &dsc, &cased, true) {
                any |= f.long_match;
            }
        }
        // one letter changed: the long pattern must NOT match any more
        let mut w = l.clone();
        let i = rng.usize_below(w.len());
        let other = alpha.iter().map(|(c, _)| *c).find(|c| *c != w[i]).unwrap_or(w[i]);
        w[i] = other;
        let lower: String = w.iter().collect();
        check_word(obs, &real, &model, &dsc, &lower, true);
    }
    if any {
        obs.nontrivial(&("long", &cfg.patterns, &cfg.exceptions));
    }
    if obs.wants_sample() {
        obs.sample(json!({"config": cfg_json(&cfg)}));
    }
}

/// A pattern set of the size of a large language's (tens of thousands of patterns, far more than 64 KiB of stored
/// levels), then a few patterns and exceptions loaded AFTER it: whatever the implementation keeps per pattern (offsets
/// into its level store, node numbers) is exercised beyond 16 bits. The words are built around the late patterns and
/// the late exceptions, and around bulk patterns stored early and late.
fn run_bulk(rng: &mut Rng, obs: &mut Obs) {
    let abc: Vec<char> = ('a'..='z').collect();
    let mut cfg = Config::default();
    let mut keys = std::collections::HashSet::new();
    let level = |rng: &mut Rng| rng.range_usize(1, 9) as u8;
    // every three-letter key, and the four-letter keys behind two random first letters
    let firsts = [*rng.pick(&abc), *rng.pick(&abc)];
    let mut bulk: Vec<Vec<char>> = vec![];
    for a in &abc {
        for b in &abc {
            for c in &abc {
                bulk.push(vec![*a, *b, *c]);
                for f in firsts {
                    bulk.push(vec![f, *a, *b, *c]);
                }
            }
        }
    }
    for letters in &bulk {
        if !keys.insert((false, false, letters.clone())) {
            continue;
        }
        let mut digits = vec![0u8; letters.len() + 1];
        for d in digits.iter_mut() {
            if rng.chance(2, 3) {
                *d = level(rng);
            }
        }
        if digits.iter().all(|d| *d == 0) {
            digits[1] = level(rng);
        }
        cfg.patterns.push(pattern_text(false, false, letters, &digits));
    }
    let n_bulk = cfg.patterns.len();
    // the late patterns: keys of two and five..seven letters, some anchored
    let mut late: Vec<Vec<char>> = vec![];
    for _ in 0..rng.range_usize(4, 12) {
        let len = *rng.pick(&[2usize, 2, 5, 6, 7]);
        let (start, end, letters, mut digits) = gen_pattern(rng, ASCII26, len);
        if digits.iter().all(|d| *d == 0) {
            digits[len / 2] = level(rng);
        }
        if keys.insert((start, end, letters.clone())) {
            cfg.patterns.push(pattern_text(start, end, &letters, &digits));
            late.push(letters);
        }
    }
    let mut exc_words: Vec<String> = vec![];
    for _ in 0..rng.range_usize(1, 4) {
        let e = gen_exception(rng, ASCII26, 8);
        exc_words.push(e.chars().filter(|c| *c != '-').collect());
        cfg.exceptions.push(e);
    }
    let (real, model) = match build(&cfg, LcKind::Ascii) {
        Ok(x) => x,
        Err(p) => {
            obs.repo_panic(&p, json!({"bulk_patterns": n_bulk, "late_patterns": &cfg.patterns[n_bulk..], "exceptions": cfg.exceptions}));
            return;
        }
    };
    obs.count("bulk_sets");
    obs.add("bulk_patterns_loaded", cfg.patterns.len() as u64);
    let tail: Vec<String> = cfg.patterns[n_bulk..].to_vec();
    let excs = cfg.exceptions.clone();
    let dsc = move || json!({"bulk_patterns": n_bulk, "late_patterns": tail, "exceptions": excs});
    let mut samples = vec![];
    for i in 0..400 {
        let mut w: Vec<char> = (0..rng.range_usize(0, 4)).map(|_| *rng.pick(&abc)).collect();
        match i % 4 {
            0 if !late.is_empty() => w.extend(rng.pick(&late).iter()),
            1 if !exc_words.is_empty() => {
                if rng.coin() {
                    w.clear();
                }
                w.extend(rng.pick(&exc_words).chars());
                if rng.chance(1, 3) {
                    w.push(*rng.pick(&abc));
                }
            }
            2 => w.extend(bulk[bulk.len() - 1 - rng.usize_below(3000)].iter()),
            _ => w.extend(bulk[rng.usize_below(bulk.len())].iter()),
        }
        if i % 4 != 1 {
            w.extend((0..rng.range_usize(0, 4)).map(|_| *rng.pick(&abc)));
        }
        let mut word: String = w.iter().collect();
        if rng.chance(1, 6) {
            word = word.to_ascii_uppercase();
        }
        obs.count("bulk_words_checked");
        if let Some(f) = check_word(obs, &real, &model, &dsc, &word, false) {
            if f.has_position {
                obs.count("bulk_words_with_positions");
                obs.nontrivial(&("bulk", n_bulk, &word, &cfg.patterns[n_bulk..]));
                if samples.len() < 2 {
                    samples.push(json!({"word": word}));
                }
            }
        }
    }
    if obs.wants_sample() {
        obs.sample(json!({"bulk_patterns": n_bulk, "late_patterns": &cfg.patterns[n_bulk..], "exceptions": cfg.exceptions, "words": samples}));
    }
}

fn run_plain(rng: &mut Rng, obs: &mut Obs) {
    let p = match plain() {
        Ok(p) => p,
        Err(e) => {
            obs.inconclusive(format!("cannot load plain TeX patterns: {e}"));
            return;
        }
    };
    let dsc = || json!("plain TeX patterns + exceptions (Hyphenator::plain_tex_en_us)");
    let mut words = vec![];
    for _ in 0..64 {
        let w = gen_plain_word(rng, p);
        let lw: Vec<char> = w.chars().map(|c| c.to_ascii_lowercase()).collect();
        obs.count("plain_words_checked");
        if p.model.exception(&lw).is_some() {
            obs.count("plain_exception_words");
        }
        if let Some(f) = check_word(obs, &p.real, &p.model, &dsc, &w, rng.chance(1, 8)) {
            if f.has_position {
                obs.count("plain_words_with_positions");
                obs.nontrivial(&("plain", &w));
                if words.len() < 3 {
                    words.push(json!({"word": w, "positions": p.model.positions(&lw)}));
                }
            }
        }
    }
    if obs.wants_sample() {
        obs.sample(json!({"plain_tex_words": words}));
    }
}
