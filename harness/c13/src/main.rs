fn main() {
    vcore::run_main(&c13::MONITOR)
}
