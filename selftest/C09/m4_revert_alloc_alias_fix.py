p='crates/texlang-stdlib/src/alloc.rs'
s=open(p).read()
a=s.index('    let Some(&(array_index, array_len)) = input.state().component().array_refs.get(&command_ref)')
b=s.index('    let inner_index = parse::Uint')
s=s[:a]+'''    let (array_index, array_len) = *input
        .state()
        .component()
        .array_refs
        .get(&command_ref)
        .unwrap();
'''+s[b:]
open(p,'w').write(s)
