# \chardef swallows the shutdown signal of a failed parse and carries on
p='crates/texlang-stdlib/src/chardef.rs'
s=open(p).read()
old='''    let (cmd_ref_or, _, c) =
        <(Option<token::CommandRef>, parse::OptionalEquals, char)>::parse(input)?;'''
assert old in s
s=s.replace(old,'''    let (cmd_ref_or, _, c) =
        match <(Option<token::CommandRef>, parse::OptionalEquals, char)>::parse(input) {
            Ok(v) => v,
            Err(_) => (None, parse::OptionalEquals {}, 'a'),
        };''')
open(p,'w').write(s)
