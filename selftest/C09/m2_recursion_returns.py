# reintroduce the recursive call after a macro expansion (stack overflow on long runs)
p='crates/texlang/src/vm/streams.rs'
s=open(p).read()
old='''                Some(command::Command::Macro(command)) => {
                    let command = command.clone();
                    command.call(token, ExpansionInput::new(vm))?;
                }
                _ => return Ok(Some(token)),
            }
        }
    }'''
assert old in s
s=s.replace(old,'''                Some(command::Command::Macro(command)) => {
                    let command = command.clone();
                    command.call(token, ExpansionInput::new(vm))?;
                    return next_expanded(vm);
                }
                _ => return Ok(Some(token)),
            }
        }
    }''')
open(p,'w').write(s)
