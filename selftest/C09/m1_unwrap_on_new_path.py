# \divide of an i32: use plain division (panics on /0 and on MIN/-1)
p='crates/texlang-stdlib/src/math.rs'
s=open(p).read()
old='''    fn checked_div(lhs: Self, rhs: i32) -> Option<Self> {
        lhs.checked_div(rhs)'''
assert old in s
s=s.replace(old,'''    fn checked_div(lhs: Self, rhs: i32) -> Option<Self> {
        Some(lhs / rhs)''',1)
open(p,'w').write(s)
