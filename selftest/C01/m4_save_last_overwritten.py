p='crates/texlang/src/variable.rs'
s=open(p).read()
old='''            std::collections::hash_map::Entry::Occupied(_) => Some(value),'''
assert old in s
s=s.replace(old,'''            std::collections::hash_map::Entry::Occupied(mut o) => Some(o.insert(value)),''')
open(p,'w').write(s)
