p='crates/texcraft-stdext/src/collections/groupingmap.rs'
s=open(p).read()
old='''                for group in &mut self.groups {
                    group.remove(&key);
                }
                None'''
assert old in s
s=s.replace(old,'''                if let Some(group) = self.groups.first_mut() {
                    group.remove(&key);
                }
                None''')
open(p,'w').write(s)
