p='crates/texlang-stdlib/src/prefix.rs'
s=open(p).read()
old='''                std::mem::replace(&mut self.scope, groupingmap::Scope::Local)'''
assert old in s
s=s.replace(old,'''                self.scope''')
open(p,'w').write(s)
