p='crates/texlang/src/vm/mod.rs'
s=open(p).read()
old='''                                    for font_or in &mut internal.fonts_save_stack {
                                        *font_or = None;
                                    }'''
assert old in s
s=s.replace(old,'''                                    if let Some(font_or) = internal.fonts_save_stack.last_mut() {
                                        *font_or = None;
                                    }''')
open(p,'w').write(s)
