p='crates/boxworks-knuthplass/src/lib.rs'
s=open(p).read()
old="                self.stretchabilities[2] + rhs.stretchabilities[2],"
assert old in s
open(p,'w').write(s.replace(old,"                self.stretchabilities[2] - rhs.stretchabilities[2],",1))
