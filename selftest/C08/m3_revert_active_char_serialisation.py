p='crates/texlang/src/command/map.rs'
s=open(p).read()
old='''        Map {
            commands,
            active_char,'''
assert old in s
s=s.replace(old,'''        let active_char = {
            let n = active_char.verif_num_groups_fallback();
            let mut m: GroupingHashMap<char, Command<S>> = Default::default();
            for _ in 0..n { m.begin_group(); }
            m
        };
        Map {
            commands,
            active_char,''')
# helper that does not need the verif feature
s=s.replace('''impl<'a> SerializableMap<'a> {
    fn new<S>(map: &'a Map<S>) -> Self {''','''trait GroupCountFallback { fn verif_num_groups_fallback(&self) -> usize; }
impl<K: Eq + std::hash::Hash + Clone, V> GroupCountFallback for GroupingHashMap<K, V> {
    fn verif_num_groups_fallback(&self) -> usize {
        self.iter_all().filter(|i| matches!(i, groupingmap::Item::BeginGroup)).count()
    }
}

impl<'a> SerializableMap<'a> {
    fn new<S>(map: &'a Map<S>) -> Self {''')
open(p,'w').write(s)
