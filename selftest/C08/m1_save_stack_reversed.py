p='crates/texlang/src/vm/serde.rs'
s=open(p).read()
old='''        .save_stack
        .into_iter()
        .map(|element| element.finish_deserialization(&built_in_commands))'''
assert old in s
s=s.replace(old,'''        .save_stack
        .into_iter()
        .rev()
        .map(|element| element.finish_deserialization(&built_in_commands))''')
open(p,'w').write(s)
