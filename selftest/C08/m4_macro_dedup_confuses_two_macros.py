p='crates/texlang/src/command/map.rs'
s=open(p).read()
old='''                    let rc_addr = Rc::as_ptr(tex_macro) as usize;'''
assert old in s
s=s.replace(old,'''                    let rc_addr = (Rc::as_ptr(tex_macro) as usize) >> 7;''')
open(p,'w').write(s)
