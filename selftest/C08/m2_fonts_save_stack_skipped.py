p='crates/texlang/src/vm/mod.rs'
s=open(p).read()
old='''    current_font: types::Font,
    fonts_save_stack: Vec<Option<types::Font>>,'''
assert old in s
s=s.replace(old,'''    current_font: types::Font,
    #[cfg_attr(feature = "serde", serde(skip))]
    fonts_save_stack: Vec<Option<types::Font>>,''')
open(p,'w').write(s)
