p='crates/tfm/src/ligkern/lang.rs'
s=open(p).read()
old="                    if r as usize >= n {"
assert old in s
open(p,'w').write(s.replace(old,"                    if r as usize > n {",1))
