#!/bin/bash
# Build every monitor from files on disk only (offline). A crate that fails to build only
# affects its own check (./check rebuilds and reports INCONCLUSIVE), never the others.
set -u
ROOT="$(cd "$(dirname "$0")" && pwd)"
cd "$ROOT/harness"
export CARGO_NET_OFFLINE=true
rc=0
cargo build --release --offline -p vcore -p vstate || rc=1
for c in c01 c02 c03 c04 c05 c06 c07 c08 c09 c10 c11 c12 c13 c14 c15 c16 c17 c18 c19 c20; do
  cargo build --release --offline -p "$c" 2>&1 | tail -2 || true
done
# the `box` binary for the CLI stage of C12 (stages/C12.sh rebuilds it incrementally on every run)
(cd "${VERIF_REPO:-/repo}" && cargo build --release --offline -p boxworks-bin --bin box --target-dir "$ROOT/harness/target/boxbin" 2>&1 | tail -1) || true
exit $rc
