#!/bin/bash
# Build every monitor from files on disk only (offline).
set -eu
cd "$(dirname "$0")/harness"
export CARGO_NET_OFFLINE=true
cargo build --release --offline
